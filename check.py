#!/usr/bin/env python3
"""Entry point of the verification machinery.

  check.py setup                          build everything, determinism smoke test
  check.py <ID> --tier quick|thorough     run the check of one property (honours VERIF_SEED)
  check.py <ID> --replay <file>           replay one recorded violation
  check.py selftest-determinism [N]       N seeds x 2 runs, compare trace hashes

Exit codes: 0 property held on everything explored (known findings are printed, not alarms),
1 violation (a line `VIOLATION property=<id> replay=<path>` is printed), 2 harness error.
"""
import concurrent.futures as cf
import json
import os
import re
import sys
import time

HERE = os.path.dirname(os.path.abspath(__file__))
sys.path.insert(0, os.path.join(HERE, "tools"))
import simlib  # noqa: E402

EVIDENCE = os.path.join(HERE, "evidence")
REPLAYS = os.path.join(HERE, "replays")
KNOWN = os.path.join(HERE, "known_findings.jsonl")
NPROC = int(os.environ.get("VERIF_JOBS", "16"))
if simlib.REPO != "/repo":
    # sensitivity experiments against a scratch copy of mmtk-core: keep their output out of /verif
    EVIDENCE = os.path.join(simlib.target_dir("A"), "out", "evidence")
    REPLAYS = os.path.join(simlib.target_dir("A"), "out", "replays")

# property -> engine, variants, (quick runs, thorough runs)
SYS = "syssim"
COMP = "compsim"
PROPS = {
    "C01": dict(engine=SYS, variants=["A", "B", "C"], quick=420, thorough=12000),
    "C02": dict(engine=SYS, variants=["A", "C"], quick=360, thorough=9000),
    "C03": dict(engine=SYS, variants=["A", "B"], quick=360, thorough=9000),
    "C04": dict(engine=SYS, variants=["A", "C"], quick=360, thorough=9000),
    "C05": dict(engine=SYS, variants=["A", "B"], quick=360, thorough=9000),
    "C06": dict(engine=SYS, variants=["A", "B"], quick=360, thorough=9000),
    "C07": dict(engine=SYS, variants=["A", "B"], quick=300, thorough=8000),
    "C08": dict(engine=SYS, variants=["A", "B"], quick=300, thorough=8000),
    "C09": dict(engine=SYS, variants=["A", "C"], quick=200, thorough=4000),
    "C10": dict(engine=SYS, variants=["A", "C"], quick=360, thorough=9000),
    "C11": dict(engine=SYS, variants=["A", "B"], quick=360, thorough=9000),
    "C12": dict(engine=SYS, variants=["A", "C"], quick=360, thorough=9000),
    "C13": dict(engine=SYS, variants=["A", "B"], quick=360, thorough=9000),
    "C14": dict(engine=SYS, variants=["A", "C"], quick=360, thorough=9000),
    "C15": dict(engine=SYS, variants=["A", "B"], quick=360, thorough=9000),
    "C16": dict(engine=SYS, variants=["A"], quick=300, thorough=8000),
    "C17": dict(engine=SYS, variants=["A", "B"], quick=360, thorough=9000),
    "C18": dict(engine=SYS, variants=["A", "B"], quick=360, thorough=9000),
    "C19": dict(engine=COMP, variants=["A"], quick=600, thorough=40000),
    "C20": dict(engine=COMP, variants=["A"], quick=600, thorough=40000),
    "C23": dict(engine=COMP, variants=["A"], quick=600, thorough=40000),
    "C28": dict(engine=SYS, variants=["A", "C"], quick=300, thorough=8000),
    "C29": dict(engine=SYS, variants=["A", "C"], quick=96, thorough=1000),
    "C30": dict(engine=COMP, variants=["A"], quick=400, thorough=20000),
    "C31": dict(engine=SYS, variants=["A"], quick=240, thorough=6000),
    "C34": dict(engine=SYS, variants=["A", "C"], quick=200, thorough=4000),
    "C36": dict(engine=SYS, variants=["A", "B"], quick=300, thorough=8000),
    "C37": dict(engine=SYS, variants=["B", "C"], quick=300, thorough=8000),
    "C38": dict(engine=SYS, variants=["A"], quick=300, thorough=8000),
}


# Which oracle families ("native" properties) count as a violation of each claimed property.  A run
# made for property X evaluates every oracle; a failure of an oracle that says nothing about X is
# reported as a note (the check of that other property is the one that must fail), not as an alarm.
# Panics / debug assertions / crashes inside mmtk-core have no native property and always count.
RELATED = {
    # heap integrity: a broken mechanism of any of these shows as lost / corrupt / overlapping objects
    "C01": {"C01", "C17"},
    "C02": {"C02"},
    "C03": {"C03"},
    "C04": {"C04", "C18"},
    "C05": {"C05", "C01"},
    "C12": {"C12", "C01"},
    "C17": {"C17", "C01"},
    "C18": {"C18", "C01", "C05"},
    "C34": {"C34", "C01", "C02"},
    "C36": {"C36", "C01", "C02"},
    "C37": {"C37", "C01"},
    # reference processing
    "C06": {"C06"},
    "C13": {"C13", "C15"},
    # valid-object bits
    "C07": {"C07", "C08"},
    "C08": {"C08", "C07"},
    # allocation contract / accounting
    "C09": {"C09", "C28"},
    "C10": {"C10"},
    "C28": {"C28", "C02"},
    "C29": {"C29", "C31"},
    "C31": {"C31"},
    "C38": {"C38"},
    # scheduler protocol
    "C11": {"C11", "C15", "C14"},
    "C14": {"C14"},
    "C15": {"C15", "C11", "C13"},
    "C16": {"C16", "C14"},
    # components
    "C19": {"C19"},
    "C20": {"C20"},
    "C23": {"C23"},
    "C30": {"C30"},
}


# Properties with schedule/fault content for which no check is claimed (yet), with the reason.
UNCLAIMED = {
    "C21": "bulk zero/set/copy quantify over inputs only: one call has no schedule, clock, fault or sharing in it (pure function of the metadata bytes and the range); not a simulation target",
    "C26": "a sequential free-list data structure with no time, I/O or sharing: an operation history against a reference model without schedule or fault is model-based input generation, not simulation",
    "C27": "the only fault it could meet, a failing mmap while growing, is an assert by design; what remains is a function of (units, grain, block size, growth steps): input generation, not simulation (see DESIGN.md 10.3)",
}


def counts_for(prop, o):
    n = o.get("native_property") or ""
    return n == "" or n in RELATED.get(prop, {prop})


REAL_VS_STUB = {
    SYS: "real: all of mmtk-core (plans, policies, allocators, metadata, scheduler, mmap). stub: the VM binding "
         "(SimVM), blocking of Mutex/Condvar/RwLock (shim over the real try_lock), Instant (simulated clock), "
         "thread scheduling (token scheduler), getrandom (fixed bytes)",
    COMP: "real: the mmtk-core component under test (BlockPool / SideMetadataSpec / HeaderMetadataSpec / "
          "ChunkStateMmapper, the latter with real mmap system calls) reached through cfg(mmtk_verif) wrappers. stub: its "
          "callers (simulated threads issuing generated operations), thread scheduling (token scheduler, context switches "
          "at the raw-metadata / block-queue / lock yield points), mmap failures (injected ENOMEM)",
}


def load_known():
    out = []
    if os.path.exists(KNOWN):
        for line in open(KNOWN):
            line = line.strip()
            if not line or line.startswith("#") or line.startswith("fixed:"):
                continue
            out.append(json.loads(line))
    return out


def known_match(o, known, prop):
    """Return the known-finding entry matching this violation outcome, or None.  (`properties` of an
    entry lists the checks that always print it; a run of any check may hit it.)"""
    for k in known:
        m = k["match"]
        if "plan" in m and o.get("plan") not in m["plan"]:
            continue
        if "variant" in m and o.get("variant") not in m["variant"]:
            continue
        if "class_regex" in m and not re.search(m["class_regex"], o.get("class", "")):
            continue
        if "message_regex" in m and not re.search(m["message_regex"], o.get("message", "")):
            continue
        if "counter_gt0" in m and not all(o.get("counters", {}).get(c, 0) > 0 for c in m["counter_gt0"]):
            continue
        return k
    return None


def seeds_for(prop, base, n):
    h = int(prop[1:])
    return [(base * 1000003 + h * 7919 + i) & 0x7FFFFFFFFFFF for i in range(n)]


def run_batch(prop, tier, base_seed, budget_s=None):
    cfg = PROPS[prop]
    n = cfg[tier]
    if os.environ.get("VERIF_RUNS"):
        n = int(os.environ["VERIF_RUNS"])
    variants = cfg["variants"]
    for v in variants:
        simlib.build(v)
    seeds = seeds_for(prop, base_seed, n)
    jobs = [(variants[i % len(variants)], s) for i, s in enumerate(seeds)]
    t0 = time.time()
    results = []

    def one(job):
        v, s = job
        o = simlib.run_seed(v, s, prop, tier)
        o["_variant"] = v
        o["_seed"] = s
        if str(o.get("class", "")).startswith("crash-"):
            # the process died before it could report: recover what the known-findings matcher
            # needs (plan, variant, which spaces the program allocates into) from the generated spec
            try:
                sp = simlib.dump_spec(v, s, prop, tier)
                o["plan"] = sp["cfg"]["plan"]
                o["variant"] = v
                o["shape"] = sp.get("shape")
                nm = sum(1 for p in sp["programs"] for op in p if op.get("op") == "Alloc" and op.get("sem") == 6)
                o["counters"] = {"alloc_in_nonmoving": nm, "kf_probe": 1 if sp["cfg"].get("kf_probe") else 0}
                o["sched"] = {}
            except Exception:
                pass
        return o

    with cf.ThreadPoolExecutor(max_workers=NPROC) as ex:
        for o in ex.map(one, jobs):
            results.append(o)
    return results, time.time() - t0


def summarise_run(o):
    sc = o.get("sched", {})
    return {
        "seed": o.get("_seed"), "variant": o.get("_variant"), "plan": o.get("plan"), "shape": o.get("shape"),
        "status": o.get("status"), "pauses": o.get("pauses"), "allocs": o.get("allocs"),
        "steps": sc.get("steps"), "context_switches": sc.get("switches"), "threads": sc.get("threads"),
        "faults_fired": sc.get("faults_fired"), "trace_hash": sc.get("trace_hash"),
    }


def write_evidence(prop, tier, base_seed, results, wall, violations, known_hits, extra_assumptions=(), other_violations=None):
    os.makedirs(EVIDENCE, exist_ok=True)
    ok = [o for o in results if o.get("status") in ("ok", "violation")]
    nontrivial = [o for o in ok if (o.get("pauses", 0) >= 1 or o.get("plan") in ("NoGC", "comp")) and o.get("sched", {}).get("switches", 0) >= 2]
    distinct = len({(o["sched"].get("switch_hash"), o["sched"].get("trace_hash")) for o in nontrivial})
    faults = {}
    counters = {}
    packet_types = {}
    coarse = set()
    steps = 0
    clock = 0
    plans = {}
    variants = {}
    for o in ok:
        sc = o.get("sched", {})
        steps += sc.get("steps", 0)
        clock += max(0, sc.get("clock_ns", 0) - 1_000_000_000)
        for k, v in sc.get("faults_fired", {}).items():
            faults[k] = faults.get(k, 0) + v
        faults["cv_notify_with_no_waiter"] = faults.get("cv_notify_with_no_waiter", 0) + sc.get("cv_notify_lost", 0)
        faults["forced_preemption_starvation_bound"] = faults.get("forced_preemption_starvation_bound", 0) + sc.get("forced_preemptions", 0)
        for k, v in o.get("counters", {}).items():
            counters[k] = counters.get(k, 0) + v
        for k, v in o.get("packet_types", {}).items():
            packet_types[k] = packet_types.get(k, 0) + v
        for c in o.get("coarse_state_list", []):
            coarse.add(c)
        plans[o.get("plan")] = plans.get(o.get("plan"), 0) + 1
        variants[o.get("_variant")] = variants.get(o.get("_variant"), 0) + 1
    harness_errors = [o for o in results if o.get("status") == "harness-error"]
    samples = [summarise_run(o) for o in nontrivial[:5]] or [summarise_run(o) for o in results[:3]]
    ev = {
        "property_id": prop,
        "tier": tier,
        "seed": base_seed,
        "level": "exploration",
        "wall_s": round(wall, 2),
        "violations": violations,
        "coverage": {
            "evaluations": len(results),
            "distinct_nontrivial": distinct,
            "rule": "one evaluation = one simulated run (real MMTK<SimVM> in its own process) of a workload, configuration, "
                    "schedule and fault sequence all derived from one seed; non-trivial = the run completed at least one GC pause "
                    "(or ran under NoGC, or is a component simulation) with at least 2 scheduler-decided context switches; distinct = distinct "
                    "(context-switch-sequence hash, full event-trace hash) pairs among the non-trivial runs",
            "samples": samples,
            "runs_per_hour": round(len(results) / max(wall, 1e-6) * 3600),
            "scheduling_steps_total": steps,
            "simulated_clock_ns_total": clock,
            "faults_fired": faults,
            "distinct_coarse_scheduler_states": len(coarse),
            "runs_per_plan": plans,
            "runs_per_variant": variants,
            "reach_probes": counters,
            "packet_types_executed": packet_types,
            "harness_errors": len(harness_errors),
            "harness_error_samples": [o.get("message", "")[:200] for o in harness_errors[:3]],
            "known_findings_hit": known_hits,
            "violations_of_other_properties_seen": other_violations or {},
            "real_vs_stub": REAL_VS_STUB[PROPS[prop]["engine"]],
        },
        "assumptions": [
            "interleavings are explored at hook sites only and every run is sequentially consistent",
            "debug assertions of mmtk-core are enabled and count as oracles",
            "a clean batch is evidence, not proof",
        ] + list(extra_assumptions),
    }
    with open(os.path.join(EVIDENCE, prop + ".json"), "w") as f:
        json.dump(ev, f, indent=1)
    return ev


def do_check(prop, tier, base_seed):
    if prop not in PROPS:
        print("property %s is not claimed (see MANIFEST.json not_applicable)" % prop)
        return 2
    known = load_known()
    results, wall = run_batch(prop, tier, base_seed)
    viols = [o for o in results if o.get("status") == "violation"]
    herr = [o for o in results if o.get("status") == "harness-error"]
    known_hits = {}
    unknown = []
    others = {}
    for o in viols:
        k = known_match(o, known, prop)
        if k and (counts_for(prop, o) or prop in (k.get("properties") or [])):
            known_hits[k["id"]] = known_hits.get(k["id"], 0) + 1
        elif counts_for(prop, o):
            unknown.append(o)
        else:
            key = (o.get("native_property"), o.get("class"), k["id"] if k else None)
            others.setdefault(key, []).append((o["_variant"], o["_seed"]))
    for (n, c, kid), runs in sorted(others.items(), key=lambda x: str(x[0])):
        print("note: %d run(s) hit an oracle of another property (%s, class %s%s), e.g. variant %s seed %d; "
              "that is decided by the check of %s" % (len(runs), n, c, ", known finding " + kid if kid else "",
                                                       runs[0][0], runs[0][1], n))
    for k in known:
        n = known_hits.get(k["id"], 0)
        if n or prop in (k.get("properties") or []):
            print("KNOWN-FINDING: property=%s %s (%s; hit in %d runs of this batch)" % (prop, k["what"], k["id"], n))
    rc = 0
    replay_path = None
    if unknown:
        o = unknown[0]
        spec = simlib.dump_spec(o["_variant"], o["_seed"], prop, tier)
        log = []
        ms, fo, okmin = simlib.minimise(spec, o["class"], workers=NPROC, budget=600, log=log.append)
        if not okmin:
            ms, fo = spec, simlib.run_spec(spec)
        os.makedirs(os.path.join(REPLAYS, prop), exist_ok=True)
        replay_path = os.path.join(REPLAYS, prop, "seed%d_%s.json" % (o["_seed"], re.sub(r"[^A-Za-z0-9]+", "_", o["class"])[:40]))
        with open(replay_path, "w") as f:
            json.dump({
                "property": prop, "native_property": fo.get("native_property"), "class": fo.get("class"),
                "message": fo.get("message"), "seed": o["_seed"], "variant": o["_variant"],
                "expected_trace_hash": fo.get("sched", {}).get("trace_hash"),
                "minimisation_log": log, "spec": ms,
            }, f, indent=1)
        # the minimised file must reproduce in a fresh process
        again = simlib.run_spec(ms)
        if again.get("status") == "violation" and again.get("class") == fo.get("class"):
            print("violation class=%s: %s" % (fo.get("class"), (fo.get("message") or "")[:400]))
            print("VIOLATION property=%s replay=%s" % (prop, replay_path))
            rc = 1
        else:
            print("harness error: minimised replay did not reproduce (%s vs %s)" % (again.get("class"), fo.get("class")))
            rc = 2
    write_evidence(prop, tier, base_seed, results, wall, len(unknown), known_hits,
                   other_violations={"%s/%s" % (k[0], k[1]): len(v) for k, v in others.items()})
    if rc == 0 and herr and len(herr) * 10 > len(results):
        print("harness error: %d of %d runs failed in the harness: %s" % (len(herr), len(results), herr[0].get("message", "")[:300]))
        rc = 2
    n_other = sum(len(r) for r in others.values())
    print("%s %s: %d runs in %.1fs, %d violations of this property (+%d known findings, %d of other properties), %d harness errors" % (
        prop, tier, len(results), wall, len(unknown), sum(known_hits.values()), n_other, len(herr)))
    return rc


def do_replay(prop, path):
    d = json.load(open(path))
    spec = d["spec"] if "spec" in d else d
    simlib.build(spec["variant"])
    o = simlib.run_spec(spec)
    want = d.get("class")
    print("replay: status=%s class=%s message=%s" % (o.get("status"), o.get("class"), (o.get("message") or "")[:400]))
    if o.get("status") == "violation" and (want is None or o.get("class") == want):
        h = d.get("expected_trace_hash")
        if h is not None and o.get("sched", {}).get("trace_hash") != h:
            print("note: trace hash differs from the recorded one (%s vs %s)" % (o["sched"].get("trace_hash"), h))
        print("VIOLATION property=%s replay=%s" % (d.get("property", prop), path))
        return 1
    if o.get("status") == "harness-error":
        return 2
    return 0


def selftest_determinism(n, variants=("A",)):
    bad = 0
    total = 0
    for v in variants:
        simlib.build(v)
        foci = sorted(p for p in PROPS if v in PROPS[p]["variants"])
        jobs = [(v, 5000 + i, foci[i % len(foci)]) for i in range(n)]

        def one(job):
            a = simlib.run_seed(job[0], job[1], job[2], "quick")
            b = simlib.run_seed(job[0], job[1], job[2], "quick")
            return job, a, b

        with cf.ThreadPoolExecutor(max_workers=NPROC) as ex:
            for job, a, b in ex.map(one, jobs):
                total += 1
                ka = (a.get("status"), a.get("class"), a.get("sched", {}).get("trace_hash"), a.get("sched", {}).get("steps"))
                kb = (b.get("status"), b.get("class"), b.get("sched", {}).get("trace_hash"), b.get("sched", {}).get("steps"))
                if ka != kb:
                    bad += 1
                    print("NONDETERMINISM variant %s seed %d focus %s: %s vs %s" % (job[0], job[1], job[2], ka, kb))
    print("determinism self-test: %d seeds x 2 runs, %d mismatches" % (total, bad))
    return 0 if bad == 0 else 2


def main():
    args = sys.argv[1:]
    if not args:
        print(__doc__)
        return 2
    if args[0] == "setup":
        for v in ("A", "B", "C"):
            simlib.build(v, quiet=False)
        return selftest_determinism(24, ("A", "B", "C"))
    if args[0] == "selftest-determinism":
        n = int(args[1]) if len(args) > 1 else 200
        return selftest_determinism(n, ("A", "B", "C"))
    prop = args[0]
    tier = os.environ.get("VERIF_TIER", "quick")
    replay = None
    i = 1
    while i < len(args):
        if args[i] == "--tier":
            tier = args[i + 1]
            i += 1
        elif args[i] == "--replay":
            replay = args[i + 1]
            i += 1
        i += 1
    base_seed = int(os.environ.get("VERIF_SEED", "1"))
    if replay:
        return do_replay(prop, replay)
    return do_check(prop, tier, base_seed)


if __name__ == "__main__":
    sys.exit(main())
