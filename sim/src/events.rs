//! Non-scheduler events from mmtk-core hooks (page grants/releases, mmap calls, chunks, ...).

use crate::world::{violation, World};
use mmtk::util::verif::rt::ev;

/// An allocation whose slow path iterates more often than this without returning is treated as
/// non-terminating (C03).  A legitimate call iterates once per GC it blocks for and gives up
/// after an emergency GC: a handful of iterations.
pub const ALLOC_SLOW_ITER_LIMIT: u64 = 2000;

pub fn on_event(w: &mut World, tid: usize, kind: u32, a: usize, b: usize, c: usize) {
    if crate::oracle2::on_event(w, tid, kind, a, b, c) {
        return;
    }
    match kind {
        ev::ACQUIRE_FAIL => {
            let e = w.acquire_fails.entry(tid).or_insert((0, 0));
            if a == 1 {
                e.1 += 1;
            } else {
                e.0 += 1;
            }
        }
        ev::ALLOC_SLOW_ITER => {
            if b == 1 {
                let n = w.alloc_slow_iters.entry(tid).or_insert(0);
                *n += 1;
                if *n > ALLOC_SLOW_ITER_LIMIT {
                    violation(
                        "C03",
                        "alloc-does-not-terminate",
                        format!(
                            "alloc(size {}) has iterated the slow path {} times without returning",
                            a, n
                        ),
                    );
                }
            }
        }
        _ => {}
    }
}
