//! Non-scheduler events from mmtk-core hooks (page grants/releases, mmap calls, chunks, ...).

use crate::world::World;

pub fn on_event(_w: &mut World, _tid: usize, _kind: u32, _a: usize, _b: usize, _c: usize) {}
