//! SimVM object layout.
//!
//! ```text
//! start+0   gc word   (in-header metadata in variant B; unused otherwise)
//! start+8   id        u64
//! start+16  size:u32 | nrefs:u16 | kind:u8 | flags:u8
//! start+24  tomb      u64   (0 while the copy is valid; stamped on the stale copy after a move)
//! start+32  ref slot × nrefs
//! ...       payload, byte i (from object start) = pay(id, i)
//! ```
//! `ObjectReference = start + REF_OFFSET`.

use mmtk::util::{Address, ObjectReference};

#[cfg(feature = "var_a")]
pub const REF_OFFSET: usize = 8;
#[cfg(not(feature = "var_a"))]
pub const REF_OFFSET: usize = 0;

pub const HEADER_BYTES: usize = 32;
pub const MIN_SIZE: usize = HEADER_BYTES;
pub const TOMB: u64 = 0xDEAD_0B1E_C7ED_0000;

pub const KIND_NORMAL: u8 = 0;
pub const KIND_SOFT: u8 = 1;
pub const KIND_WEAK: u8 = 2;
pub const KIND_PHANTOM: u8 = 3;

pub const FLAG_ALIGN16: u8 = 1;
pub const FLAG_OFFSET8: u8 = 2;

#[derive(Clone, Copy, Debug, PartialEq, Eq)]
pub struct Hdr {
    pub id: u64,
    pub size: u32,
    pub nrefs: u16,
    pub kind: u8,
    pub flags: u8,
    pub tomb: u64,
}

pub fn start_of(o: ObjectReference) -> Address {
    o.to_raw_address().sub(REF_OFFSET)
}

pub fn ref_of(start: Address) -> ObjectReference {
    unsafe { ObjectReference::from_raw_address_unchecked(start.add(REF_OFFSET)) }
}

pub fn raw_to_ref(raw: usize) -> Option<ObjectReference> {
    ObjectReference::from_raw_address(unsafe { Address::from_usize(raw) })
}

pub fn read_hdr(start: Address) -> Hdr {
    unsafe {
        let p = start.to_ptr::<u64>();
        let id = p.add(1).read_volatile();
        let w = p.add(2).read_volatile();
        let tomb = p.add(3).read_volatile();
        Hdr {
            id,
            size: w as u32,
            nrefs: (w >> 32) as u16,
            kind: (w >> 48) as u8,
            flags: (w >> 56) as u8,
            tomb,
        }
    }
}

pub fn write_hdr(start: Address, h: &Hdr) {
    unsafe {
        let p = start.to_mut_ptr::<u64>();
        p.add(1).write_volatile(h.id);
        let w = h.size as u64
            | ((h.nrefs as u64) << 32)
            | ((h.kind as u64) << 48)
            | ((h.flags as u64) << 56);
        p.add(2).write_volatile(w);
        p.add(3).write_volatile(h.tomb);
    }
}

pub fn slot_addr(start: Address, i: usize) -> Address {
    start.add(HEADER_BYTES + 8 * i)
}

pub fn pay(id: u64, i: usize) -> u8 {
    let x = id
        .wrapping_mul(0x9E37_79B9_7F4A_7C15)
        .wrapping_add((i as u64).wrapping_mul(0xD6E8_FEB8_6659_FD93));
    (x >> 29) as u8 | 1
}

pub fn payload_range(h: &Hdr) -> std::ops::Range<usize> {
    (HEADER_BYTES + 8 * h.nrefs as usize)..(h.size as usize)
}

pub fn fill_payload(start: Address, h: &Hdr) {
    for i in payload_range(h) {
        unsafe { start.add(i).store::<u8>(pay(h.id, i)) };
    }
}

/// Returns the first bad payload offset, if any.
pub fn check_payload(start: Address, h: &Hdr) -> Option<usize> {
    for i in payload_range(h) {
        let b = unsafe { start.add(i).load::<u8>() };
        if b != pay(h.id, i) {
            return Some(i);
        }
    }
    None
}

pub fn align_of_flags(flags: u8) -> usize {
    if flags & FLAG_ALIGN16 != 0 {
        16
    } else {
        8
    }
}

pub fn offset_of_flags(flags: u8) -> usize {
    if flags & FLAG_OFFSET8 != 0 {
        8
    } else {
        0
    }
}
