//! SimVM: the VM binding used by the whole-system simulator.

use crate::obj::{self, Hdr};
use crate::simrt;
use crate::world::{self, with_world};
use mmtk::scheduler::{GCWorker, WorkBucketStage};
use mmtk::util::alloc::AllocationError;
use mmtk::util::copy::{CopySemantics, GCWorkerCopyContext};
use mmtk::util::opaque_pointer::*;
use mmtk::util::verif::rt::site;
use mmtk::util::{Address, ObjectReference};
use mmtk::vm::*;
use mmtk::{Mutator, MMTK};
use std::ops::Range;
use std::sync::atomic::{AtomicBool, AtomicPtr, AtomicU64, AtomicUsize, Ordering};
use std::sync::OnceLock;

#[derive(Default)]
pub struct SimVM;

impl VMBinding for SimVM {
    type VMObjectModel = SimObjectModel;
    type VMScanning = SimScanning;
    type VMCollection = SimCollection;
    type VMActivePlan = SimActivePlan;
    type VMReferenceGlue = SimReferenceGlue;
    type VMSlot = Address;
    type VMMemorySlice = Range<Address>;

    const MIN_ALIGNMENT: usize = 8;
    const MAX_ALIGNMENT: usize = 16;
}

pub static MMTK_INSTANCE: OnceLock<&'static MMTK<SimVM>> = OnceLock::new();

pub fn mmtk() -> &'static MMTK<SimVM> {
    MMTK_INSTANCE.get().unwrap()
}

// ---------------------------------------------------------------------------------------------
// Thread identities
// ---------------------------------------------------------------------------------------------

pub const TLS_MAIN: usize = 0x10;
pub const TLS_MUTATOR_BASE: usize = 0x1000;
pub const TLS_WORKER_BASE: usize = 0x2000;
pub const MAX_MUT: usize = 8;
pub const NROOTS: usize = 32;
pub const NGLOBAL: usize = 32;

pub fn tls_of(v: usize) -> VMThread {
    VMThread(OpaquePointer::from_address(unsafe {
        Address::from_usize(v)
    }))
}

pub fn mutator_tls(mid: usize) -> VMMutatorThread {
    VMMutatorThread(tls_of(TLS_MUTATOR_BASE + mid))
}

pub fn tls_value(t: VMThread) -> usize {
    t.0.to_address().as_usize()
}

pub fn mid_of(t: VMMutatorThread) -> usize {
    tls_value(t.0) - TLS_MUTATOR_BASE
}

// ---------------------------------------------------------------------------------------------
// State shared with scheduler predicates (atomics only)
// ---------------------------------------------------------------------------------------------

#[allow(clippy::declare_interior_mutable_const)]
const AP_NULL: AtomicPtr<Mutator<SimVM>> = AtomicPtr::new(std::ptr::null_mut());
#[allow(clippy::declare_interior_mutable_const)]
const AB_FALSE: AtomicBool = AtomicBool::new(false);
#[allow(clippy::declare_interior_mutable_const)]
const AU_ZERO: AtomicUsize = AtomicUsize::new(0);
#[allow(clippy::declare_interior_mutable_const)]
const ROOT_ROW: [AtomicUsize; NROOTS] = [AU_ZERO; NROOTS];

pub static MUTATORS: [AtomicPtr<Mutator<SimVM>>; MAX_MUT] = [AP_NULL; MAX_MUT];
/// Mutator is bound and not destroyed.
pub static MUT_ACTIVE: [AtomicBool; MAX_MUT] = [AB_FALSE; MAX_MUT];
/// Mutator is parked at a safepoint (or in block_for_gc).
pub static MUT_PARKED: [AtomicBool; MAX_MUT] = [AB_FALSE; MAX_MUT];
pub static STOP_REQUESTED: AtomicBool = AtomicBool::new(false);
pub static RESUME_COUNT: AtomicU64 = AtomicU64::new(0);
pub static WORKERS_ALIVE: AtomicUsize = AtomicUsize::new(0);
pub static WORKERS_SPAWNED_TOTAL: AtomicUsize = AtomicUsize::new(0);

pub static ROOTS_LOCAL: [[AtomicUsize; NROOTS]; MAX_MUT] = [ROOT_ROW; MAX_MUT];
pub static ROOTS_GLOBAL: [AtomicUsize; NGLOBAL] = [AU_ZERO; NGLOBAL];

pub fn all_active_parked() -> bool {
    for m in 0..MAX_MUT {
        if MUT_ACTIVE[m].load(Ordering::SeqCst) && !MUT_PARKED[m].load(Ordering::SeqCst) {
            return false;
        }
    }
    true
}

pub fn mutator_ref(mid: usize) -> &'static mut Mutator<SimVM> {
    let p = MUTATORS[mid].load(Ordering::SeqCst);
    assert!(!p.is_null(), "mutator {} not bound", mid);
    unsafe { &mut *p }
}

/// A mutator safepoint: park while a stop is requested.
pub fn safepoint(mid: usize) {
    use crate::ops2::FORK_HOLD;
    if STOP_REQUESTED.load(Ordering::SeqCst) || FORK_HOLD.load(Ordering::SeqCst) {
        MUT_PARKED[mid].store(true, Ordering::SeqCst);
        simrt::block_until("safepoint: world resumed", || {
            !STOP_REQUESTED.load(Ordering::SeqCst) && !FORK_HOLD.load(Ordering::SeqCst)
        });
        MUT_PARKED[mid].store(false, Ordering::SeqCst);
    }
}

// ---------------------------------------------------------------------------------------------
// ObjectModel
// ---------------------------------------------------------------------------------------------

pub struct SimObjectModel;

#[cfg(not(feature = "header_meta"))]
mod specs {
    use super::*;
    pub const LOG: VMGlobalLogBitSpec = VMGlobalLogBitSpec::side_first();
    // A side forwarding pointer would need one metadata word per heap word (as large as the
    // address space); like every real binding we keep it in the header's gc word.
    pub const FWD_PTR: VMLocalForwardingPointerSpec = VMLocalForwardingPointerSpec::in_header(0);
    pub const FWD_BITS: VMLocalForwardingBitsSpec = VMLocalForwardingBitsSpec::side_first();
    pub const MARK: VMLocalMarkBitSpec = VMLocalMarkBitSpec::side_after(FWD_BITS.as_spec());
    pub const PIN: VMLocalPinningBitSpec = VMLocalPinningBitSpec::side_after(MARK.as_spec());
    pub const LOS: VMLocalLOSMarkNurserySpec =
        VMLocalLOSMarkNurserySpec::side_after(PIN.as_spec());
}

#[cfg(feature = "header_meta")]
mod specs {
    use super::*;
    // gc word: bits 0..1 forwarding bits, bits 3..55 forwarding pointer (same word),
    // byte 7: log bit (56), pin bit (57), LOS mark/nursery (58..59).
    pub const LOG: VMGlobalLogBitSpec = VMGlobalLogBitSpec::in_header(56);
    pub const FWD_PTR: VMLocalForwardingPointerSpec = VMLocalForwardingPointerSpec::in_header(0);
    pub const FWD_BITS: VMLocalForwardingBitsSpec = VMLocalForwardingBitsSpec::in_header(0);
    pub const MARK: VMLocalMarkBitSpec = VMLocalMarkBitSpec::side_first();
    pub const PIN: VMLocalPinningBitSpec = VMLocalPinningBitSpec::in_header(57);
    pub const LOS: VMLocalLOSMarkNurserySpec = VMLocalLOSMarkNurserySpec::in_header(58);
}

impl ObjectModel<SimVM> for SimObjectModel {
    const GLOBAL_LOG_BIT_SPEC: VMGlobalLogBitSpec = specs::LOG;
    const LOCAL_FORWARDING_POINTER_SPEC: VMLocalForwardingPointerSpec = specs::FWD_PTR;
    const LOCAL_FORWARDING_BITS_SPEC: VMLocalForwardingBitsSpec = specs::FWD_BITS;
    const LOCAL_MARK_BIT_SPEC: VMLocalMarkBitSpec = specs::MARK;
    const LOCAL_PINNING_BIT_SPEC: VMLocalPinningBitSpec = specs::PIN;
    const LOCAL_LOS_MARK_NURSERY_SPEC: VMLocalLOSMarkNurserySpec = specs::LOS;

    const OBJECT_REF_OFFSET_LOWER_BOUND: isize = obj::REF_OFFSET as isize;
    /// Required by the Compressor (it asserts it); true exactly in the variants whose object
    /// reference is the object start.
    const UNIFIED_OBJECT_REFERENCE_ADDRESS: bool = obj::REF_OFFSET == 0;

    fn copy(
        from: ObjectReference,
        semantics: CopySemantics,
        copy_context: &mut GCWorkerCopyContext<SimVM>,
    ) -> ObjectReference {
        let from_start = obj::start_of(from);
        let h = obj::read_hdr(from_start);
        let bytes = h.size as usize;
        let align = obj::align_of_flags(h.flags);
        let offset = obj::offset_of_flags(h.flags);
        world::on_copy_begin(from, &h);
        let dst = copy_context.alloc_copy(from, bytes, align, offset, semantics);
        assert!(!dst.is_zero(), "alloc_copy returned zero");
        unsafe {
            std::ptr::copy_nonoverlapping::<u8>(from_start.to_ptr(), dst.to_mut_ptr(), bytes);
        }
        let to_obj = obj::ref_of(dst);
        copy_context.post_copy(to_obj, bytes, semantics);
        // Stamp the stale copy (a word mmtk-core never reads).
        unsafe { from_start.add(24).store::<u64>(obj::TOMB | (h.id & 0xffff)) };
        world::on_copy_end(from, to_obj, &h, dst, align, offset);
        to_obj
    }

    fn copy_to(from: ObjectReference, to: ObjectReference, _region: Address) -> Address {
        let from_start = obj::start_of(from);
        let h = obj::read_hdr(from_start);
        let bytes = h.size as usize;
        let to_start = obj::start_of(to);
        if from_start != to_start {
            unsafe {
                std::ptr::copy::<u8>(from_start.to_ptr(), to_start.to_mut_ptr(), bytes);
            }
        }
        world::on_copy_to(from, to, &h);
        to_start.add(bytes)
    }

    fn get_reference_when_copied_to(_from: ObjectReference, to: Address) -> ObjectReference {
        obj::ref_of(to)
    }

    fn get_current_size(object: ObjectReference) -> usize {
        obj::read_hdr(obj::start_of(object)).size as usize
    }

    fn get_size_when_copied(object: ObjectReference) -> usize {
        Self::get_current_size(object)
    }

    fn get_align_when_copied(object: ObjectReference) -> usize {
        obj::align_of_flags(obj::read_hdr(obj::start_of(object)).flags)
    }

    fn get_align_offset_when_copied(object: ObjectReference) -> usize {
        obj::offset_of_flags(obj::read_hdr(obj::start_of(object)).flags)
    }

    fn get_type_descriptor(_reference: ObjectReference) -> &'static [i8] {
        &[]
    }

    fn ref_to_object_start(object: ObjectReference) -> Address {
        obj::start_of(object)
    }

    fn ref_to_header(object: ObjectReference) -> Address {
        obj::start_of(object)
    }

    fn dump_object(object: ObjectReference) {
        eprintln!("{:?} {:?}", object, obj::read_hdr(obj::start_of(object)));
    }
}

// ---------------------------------------------------------------------------------------------
// Scanning
// ---------------------------------------------------------------------------------------------

pub struct SimScanning;

fn report_roots(
    slots: Vec<(Address, u8)>,
    batch: usize,
    mut factory: impl RootsWorkFactory<Address>,
) {
    // class 0 = normal slot roots, 1 = pinning roots, 2 = transitively pinning roots
    let mut normal: Vec<Address> = Vec::new();
    let mut pin: Vec<ObjectReference> = Vec::new();
    let mut tpin: Vec<ObjectReference> = Vec::new();
    for (slot, class) in slots {
        match class {
            0 => {
                normal.push(slot);
                if normal.len() >= batch {
                    factory.create_process_roots_work(std::mem::take(&mut normal));
                }
            }
            c => {
                let raw = unsafe { slot.load::<usize>() };
                if let Some(o) = obj::raw_to_ref(raw) {
                    let v = if c == 1 { &mut pin } else { &mut tpin };
                    v.push(o);
                    if v.len() >= batch {
                        let taken = std::mem::take(v);
                        if c == 1 {
                            factory.create_process_pinning_roots_work(taken);
                        } else {
                            factory.create_process_tpinning_roots_work(taken);
                        }
                    }
                }
            }
        }
    }
    if !normal.is_empty() {
        factory.create_process_roots_work(normal);
    }
    if !pin.is_empty() {
        factory.create_process_pinning_roots_work(pin);
    }
    if !tpin.is_empty() {
        factory.create_process_tpinning_roots_work(tpin);
    }
}

impl Scanning<SimVM> for SimScanning {
    // (variant C: side mark bits *and* no unique enqueuing, the combination in which the
    // mark-sweep space marks with a check-then-set that is only atomic per byte)
    const UNIQUE_OBJECT_ENQUEUING: bool = cfg!(not(any(feature = "header_meta", feature = "var_c")));

    fn scan_object<SV: SlotVisitor<Address>>(
        _tls: VMWorkerThread,
        object: ObjectReference,
        slot_visitor: &mut SV,
    ) {
        let start = obj::start_of(object);
        let h = obj::read_hdr(start);
        world::on_scan_object(object, &h);
        let first = if h.kind != obj::KIND_NORMAL { 1 } else { 0 };
        for i in first..h.nrefs as usize {
            slot_visitor.visit_slot(obj::slot_addr(start, i));
        }
    }

    fn notify_initial_thread_scan_complete(_partial_scan: bool, _tls: VMWorkerThread) {}

    fn scan_roots_in_mutator_thread(
        _tls: VMWorkerThread,
        mutator: &'static mut Mutator<SimVM>,
        factory: impl RootsWorkFactory<Address>,
    ) {
        let mid = mid_of(mutator.mutator_tls);
        let (batch, slots) = world::on_scan_mutator_roots(mid);
        report_roots(slots, batch, factory);
    }

    fn scan_vm_specific_roots(_tls: VMWorkerThread, factory: impl RootsWorkFactory<Address>) {
        let (batch, slots) = world::on_scan_vm_roots();
        report_roots(slots, batch, factory);
    }

    fn supports_return_barrier() -> bool {
        false
    }

    fn prepare_for_roots_re_scanning() {}

    fn process_weak_refs(
        worker: &mut GCWorker<SimVM>,
        tracer_context: impl ObjectTracerContext<SimVM>,
    ) -> bool {
        crate::oracle::process_weak_refs(worker, tracer_context)
    }

    fn forward_weak_refs(
        worker: &mut GCWorker<SimVM>,
        tracer_context: impl ObjectTracerContext<SimVM>,
    ) {
        crate::oracle::forward_weak_refs(worker, tracer_context)
    }
}

// ---------------------------------------------------------------------------------------------
// Collection
// ---------------------------------------------------------------------------------------------

pub struct SimCollection;

impl Collection<SimVM> for SimCollection {
    fn stop_all_mutators<F>(_tls: VMWorkerThread, mut mutator_visitor: F)
    where
        F: FnMut(&'static mut Mutator<SimVM>),
    {
        world::on_stop_begin();
        STOP_REQUESTED.store(true, Ordering::SeqCst);
        simrt::block_until("all mutators stopped", all_active_parked);
        world::on_stop_end();
        for m in 0..MAX_MUT {
            if MUT_ACTIVE[m].load(Ordering::SeqCst) {
                mutator_visitor(mutator_ref(m));
            }
        }
    }

    fn resume_mutators(_tls: VMWorkerThread) {
        // The world is still stopped here: run the post-pause oracle first.
        crate::oracle::on_resume();
        STOP_REQUESTED.store(false, Ordering::SeqCst);
        RESUME_COUNT.fetch_add(1, Ordering::SeqCst);
        simrt::yield_now(site::mk(site::CLASS_BINDING, 10));
    }

    fn block_for_gc(tls: VMMutatorThread) {
        let mid = mid_of(tls);
        world::on_block_for_gc(mid);
        let start = RESUME_COUNT.load(Ordering::SeqCst);
        MUT_PARKED[mid].store(true, Ordering::SeqCst);
        simrt::block_until("block_for_gc: a GC has finished", move || {
            // (a fork round trip in progress keeps the thread here: the VM must not allocate
            // between prepare_to_fork and after_fork, and this thread is inside an allocation)
            RESUME_COUNT.load(Ordering::SeqCst) > start
                && !STOP_REQUESTED.load(Ordering::SeqCst)
                && !crate::ops2::FORK_HOLD.load(Ordering::SeqCst)
        });
        MUT_PARKED[mid].store(false, Ordering::SeqCst);
        world::on_unblocked(mid);
    }

    fn spawn_gc_thread(_tls: VMThread, ctx: GCThreadContext<SimVM>) {
        let GCThreadContext::Worker(worker) = ctx;
        let ordinal = worker.ordinal;
        world::on_spawn_worker(ordinal);
        WORKERS_ALIVE.fetch_add(1, Ordering::SeqCst);
        WORKERS_SPAWNED_TOTAL.fetch_add(1, Ordering::SeqCst);
        // Box<GCWorker> is not Send by itself (raw pointers inside); wrap it.
        struct SendBox(Box<GCWorker<SimVM>>);
        unsafe impl Send for SendBox {}
        let sb = SendBox(worker);
        simrt::spawn(&format!("worker{}", ordinal), move || {
            let sb = sb;
            let tls = VMWorkerThread(tls_of(TLS_WORKER_BASE + ordinal));
            mmtk::memory_manager::start_worker::<SimVM>(mmtk(), tls, sb.0);
            world::on_worker_exit(ordinal);
            WORKERS_ALIVE.fetch_sub(1, Ordering::SeqCst);
        });
    }

    fn out_of_memory(tls: VMThread, err_kind: AllocationError) {
        world::on_out_of_memory(tls_value(tls), err_kind);
    }

    fn schedule_finalization(_tls: VMWorkerThread) {
        world::on_schedule_finalization();
    }

    fn post_forwarding(_tls: VMWorkerThread) {
        world::on_post_forwarding();
    }
}

// ---------------------------------------------------------------------------------------------
// ActivePlan
// ---------------------------------------------------------------------------------------------

pub struct SimActivePlan;

impl ActivePlan<SimVM> for SimActivePlan {
    fn is_mutator(tls: VMThread) -> bool {
        let v = tls_value(tls);
        (TLS_MUTATOR_BASE..TLS_MUTATOR_BASE + MAX_MUT).contains(&v)
    }

    fn mutator(tls: VMMutatorThread) -> &'static mut Mutator<SimVM> {
        mutator_ref(mid_of(tls))
    }

    fn mutators<'a>() -> Box<dyn Iterator<Item = &'a mut Mutator<SimVM>> + 'a> {
        let v: Vec<&'a mut Mutator<SimVM>> = (0..MAX_MUT)
            .filter(|m| MUT_ACTIVE[*m].load(Ordering::SeqCst))
            .map(|m| {
                let p = MUTATORS[m].load(Ordering::SeqCst);
                unsafe { &mut *p }
            })
            .collect();
        Box::new(v.into_iter())
    }

    fn number_of_mutators() -> usize {
        (0..MAX_MUT)
            .filter(|m| MUT_ACTIVE[*m].load(Ordering::SeqCst))
            .count()
    }
}

// ---------------------------------------------------------------------------------------------
// ReferenceGlue
// ---------------------------------------------------------------------------------------------

pub struct SimReferenceGlue;

impl ReferenceGlue<SimVM> for SimReferenceGlue {
    type FinalizableType = ObjectReference;

    fn clear_referent(new_reference: ObjectReference) {
        let start = obj::start_of(new_reference);
        world::on_clear_referent(new_reference);
        unsafe { obj::slot_addr(start, 0).store::<usize>(0) };
    }

    fn get_referent(object: ObjectReference) -> Option<ObjectReference> {
        let start = obj::start_of(object);
        let raw = unsafe { obj::slot_addr(start, 0).load::<usize>() };
        obj::raw_to_ref(raw)
    }

    fn set_referent(reff: ObjectReference, referent: ObjectReference) {
        let start = obj::start_of(reff);
        unsafe { obj::slot_addr(start, 0).store::<usize>(referent.to_raw_address().as_usize()) };
    }

    fn enqueue_references(references: &[ObjectReference], _tls: VMWorkerThread) {
        world::on_enqueue_references(references);
    }
}

/// A binding-defined work packet (for `InjectPackets`).
pub struct InjectedPacket {
    pub seq: u64,
    pub fanout: u8,
}

impl mmtk::scheduler::GCWork<SimVM> for InjectedPacket {
    fn do_work(&mut self, worker: &mut GCWorker<SimVM>, _mmtk: &'static MMTK<SimVM>) {
        world::on_injected_run(self.seq);
        for i in 0..self.fanout {
            let seq = world::new_injected(self.seq, i);
            worker.add_work(
                WorkBucketStage::Unconstrained,
                InjectedPacket { seq, fanout: 0 },
            );
        }
    }
}

pub fn hdr_of(o: ObjectReference) -> Hdr {
    obj::read_hdr(obj::start_of(o))
}

pub fn _touch() {
    let _ = with_world(|_w| ());
}
