//! Property-specific oracles over event histories and introspection:
//! C28 (page grants / accounting), C29 (Map32 region map), C34 (Immix line marks),
//! C36 (large-object treadmill), C37 (Compressor packing order), C09 (reclamation floor).

use crate::vm::{mmtk, MMTK_INSTANCE};
use crate::world::{violation, World};
use mmtk::util::verif::introspect::{self, GcInfo};
use mmtk::util::verif::rt::ev;
use mmtk::util::Address;
use std::collections::{BTreeMap, BTreeSet};

const PAGE: usize = 4096;
const CHUNK: usize = 1 << 22;
const COMPRESSOR_REGION: usize = 1 << 20;

#[derive(Default)]
pub struct Hist {
    /// live page grants: start -> (pages, space index)
    pub grants: BTreeMap<usize, (usize, usize)>,
    pub grants_total: u64,
    pub releases_total: u64,
    /// Map32 regions: start -> (chunks, space index)
    pub regions: BTreeMap<usize, (usize, usize)>,
    pub freed_chunks: BTreeSet<usize>,
    pub chunk_total: Option<usize>,
    /// LOS sweeps of the current pause: object -> times
    pub los_swept: BTreeMap<usize, u32>,
    /// C09: used bytes after the exhaustive GCs at which nothing was live
    pub empty_heap_used: Vec<(u64, usize)>,
}

fn addr(a: usize) -> Address {
    unsafe { Address::from_usize(a) }
}

pub fn on_event(w: &mut World, _tid: usize, kind: u32, a: usize, b: usize, c: usize) -> bool {
    match kind {
        ev::PAGES_GRANT => grant(w, a, b, c),
        ev::PAGES_RELEASE => release(w, a, b, c),
        ev::PAGES_RESET => reset(w, a, b),
        ev::CHUNK_ALLOC => chunk_alloc(w, a, b, c),
        ev::CHUNK_FREE => chunk_free(w, a, b),
        ev::LOS_SWEEP => {
            *w.hist.los_swept.entry(a).or_insert(0) += 1;
            if !(w.pause.active && w.pause.stopped) {
                violation("C36", "sweep-outside-pause", format!("large object {:#x} swept while mutators run", a));
            }
        }
        _ => return false,
    }
    true
}

// ------------------------------------------------------------------------------------------ C28

fn grant(w: &mut World, space: usize, start: usize, pages: usize) {
    w.hist.grants_total += 1;
    if start % PAGE != 0 || pages == 0 {
        violation("C28", "grant-misaligned", format!("space {} was granted {} pages at {:#x}", space, pages, start));
    }
    let end = start + pages * PAGE;
    if let Some((s, (p, sp))) = w.hist.grants.range(..end).next_back() {
        if s + p * PAGE > start {
            violation(
                "C28",
                "grant-overlap",
                format!(
                    "space {} was granted [{:#x},{:#x}) which overlaps the live grant [{:#x},{:#x}) of space {}",
                    space, start, end, s, s + p * PAGE, sp
                ),
            );
        }
    }
    if MMTK_INSTANCE.get().is_some() {
        let spaces = introspect::spaces(mmtk());
        if let Some(si) = spaces.iter().find(|s| s.index == space) {
            if si.contiguous {
                let lo = si.start.as_usize();
                if start < lo || end > lo + si.extent {
                    violation(
                        "C28",
                        "grant-outside-space",
                        format!("space '{}' [{:#x},{:#x}) was granted [{:#x},{:#x})", si.name, lo, lo + si.extent, start, end),
                    );
                }
            }
            for p in [start, end - PAGE] {
                match introspect::descriptor_index(addr(p)) {
                    Some(ix) if ix == space => {}
                    other => violation(
                        "C28",
                        "grant-outside-descriptor",
                        format!("space '{}' (index {}) was granted page {:#x} whose chunk descriptor names {:?}", si.name, space, p, other),
                    ),
                }
            }
        }
    }
    w.hist.grants.insert(start, (pages, space));
}

fn release(w: &mut World, mode: usize, start: usize, pages: usize) {
    w.hist.releases_total += 1;
    if mode == 0 {
        match w.hist.grants.get(&start) {
            Some((p, _)) if *p == pages => {
                w.hist.grants.remove(&start);
            }
            Some((p, sp)) => violation(
                "C28",
                "release-size-mismatch",
                format!("release of {} pages at {:#x}, but the grant there (space {}) has {} pages", pages, start, sp, p),
            ),
            None => violation(
                "C28",
                "release-unknown",
                format!("release of {} pages at {:#x}: no live grant starts there (double release?)", pages, start),
            ),
        }
    } else {
        // region page resource: [start, start + pages) is truncated off the end of a region
        let end = start + pages * PAGE;
        let n = trim_range(w, None, start, end);
        if n != pages {
            violation(
                "C28",
                "release-count-mismatch",
                format!("region truncation released {} pages at {:#x}, but {} granted pages lie there", pages, start, n),
            );
        }
    }
}

/// Remove the parts of live grants (of `space`, or any) inside [lo, hi); returns pages removed.
fn trim_range(w: &mut World, space: Option<usize>, lo: usize, hi: usize) -> usize {
    let keys: Vec<usize> = w.hist.grants.range(..hi).map(|(k, _)| *k).collect();
    let mut removed = 0;
    for k in keys {
        let (p, sp) = w.hist.grants[&k];
        if space.map_or(false, |s| s != sp) {
            continue;
        }
        let e = k + p * PAGE;
        if e <= lo {
            continue;
        }
        let cut_lo = lo.max(k);
        let cut_hi = hi.min(e);
        if cut_lo >= cut_hi {
            continue;
        }
        removed += (cut_hi - cut_lo) / PAGE;
        w.hist.grants.remove(&k);
        if k < cut_lo {
            w.hist.grants.insert(k, ((cut_lo - k) / PAGE, sp));
        }
        if cut_hi < e {
            w.hist.grants.insert(cut_hi, ((e - cut_hi) / PAGE, sp));
        }
    }
    removed
}

fn reset(w: &mut World, space: usize, top: usize) {
    if top == 0 {
        w.hist.grants.retain(|_, (_, sp)| *sp != space);
    } else {
        // In a discontiguous space "above the top" is in region-list order, not address order:
        // the shadow cannot tell which grants survive, so it forgets the space's grants (new
        // grants are tracked again; the exact-accounting check skips such a space).
        let contiguous = MMTK_INSTANCE.get().is_none()
            || introspect::spaces(mmtk()).iter().find(|s| s.index == space).map_or(true, |s| s.contiguous);
        if contiguous {
            let t = (top + PAGE - 1) & !(PAGE - 1);
            trim_range(w, Some(space), t, usize::MAX);
        } else {
            w.hist.grants.retain(|_, (_, sp)| *sp != space);
        }
    }
}

fn check_accounting(w: &mut World) {
    let spaces = introspect::spaces(mmtk());
    let mut per: BTreeMap<usize, usize> = BTreeMap::new();
    for (_, (p, sp)) in w.hist.grants.iter() {
        *per.entry(*sp).or_insert(0) += p;
    }
    for si in spaces.iter() {
        // The region page resource of the Compressor space commits whole regions in its
        // monotone sub-resource: its counters are not per-grant (and it is not one of the
        // three page resources C28 is about).  Grants and truncations are still checked.
        if si.name == "compressor_space" {
            continue;
        }
        // MarkCompact truncates its monotone resource at the compaction top.  In a discontiguous
        // layout the regions before the one holding the top (in list order, not address order)
        // are then accounted as wholly in use, which is neither expressible as "pages above an
        // address" nor per grant; only the contiguous case is checked exactly.
        if si.name == "mc" && !si.contiguous {
            continue;
        }
        let granted = per.get(&si.index).cloned().unwrap_or(0);
        if si.committed_pages > (usize::MAX >> 1) || si.reserved_pages > (usize::MAX >> 1) {
            violation(
                "C28",
                "accounting-underflow",
                format!("space '{}': reserved {} committed {} pages", si.name, si.reserved_pages, si.committed_pages),
            );
        }
        if si.committed_pages != granted || si.reserved_pages != si.committed_pages {
            violation(
                "C28",
                "accounting-mismatch",
                format!(
                    "after pause {}: space '{}' reports reserved {} / committed {} pages, but {} pages are currently granted to it",
                    w.pause.n, si.name, si.reserved_pages, si.committed_pages, granted
                ),
            );
        }
    }
    w.count("c28_accounting_checks");
}

// ------------------------------------------------------------------------------------------ C29

fn chunk_alloc(w: &mut World, start: usize, chunks: usize, space: usize) {
    if start % CHUNK != 0 || chunks == 0 {
        violation("C29", "region-misaligned", format!("region of {} chunks at {:#x}", chunks, start));
    }
    let end = start + chunks * CHUNK;
    if let Some((s, (n, sp))) = w.hist.regions.range(..end).next_back() {
        if s + n * CHUNK > start {
            violation(
                "C29",
                "region-overlap",
                format!("space {} got chunks [{:#x},{:#x}) overlapping region [{:#x},{:#x}) of space {}", space, start, end, s, s + n * CHUNK, sp),
            );
        }
    }
    w.hist.regions.insert(start, (chunks, space));
    for i in 0..chunks {
        w.hist.freed_chunks.remove(&(start + i * CHUNK));
    }
}

fn chunk_free(w: &mut World, start: usize, chunks: usize) {
    match w.hist.regions.get(&start) {
        Some((n, _)) if *n == chunks => {
            w.hist.regions.remove(&start);
            for i in 0..chunks {
                w.hist.freed_chunks.insert(start + i * CHUNK);
            }
        }
        other => violation(
            "C29",
            "region-free-mismatch",
            format!("free of {} chunks at {:#x}, but the allocated region there is {:?}", chunks, start, other),
        ),
    }
}

fn check_region_map(w: &mut World) {
    if !w.spec.cfg.layout32 {
        return;
    }
    // descriptors
    for (s, (n, sp)) in w.hist.regions.iter() {
        for i in 0..*n {
            let a = s + i * CHUNK;
            match introspect::descriptor_index(addr(a)) {
                Some(ix) if ix == *sp => {}
                other => violation(
                    "C29",
                    "descriptor-wrong",
                    format!("chunk {:#x} belongs to space {} but its descriptor names {:?}", a, sp, other),
                ),
            }
        }
    }
    for a in w.hist.freed_chunks.iter() {
        if let Some(ix) = introspect::descriptor_index(addr(*a)) {
            violation("C29", "descriptor-not-cleared", format!("freed chunk {:#x} still has the descriptor of space {}", a, ix));
        }
        let name = introspect::sft_name(addr(*a));
        if name != "empty" {
            violation("C31", "freed-chunk-still-in-sft", format!("chunk {:#x} was freed (its descriptor is cleared) but the SFT map still resolves it to space '{}'", a, name));
        }
    }
    // per-space lists
    let lists = introspect::space_regions(mmtk());
    let mut linked: BTreeMap<usize, (usize, usize)> = BTreeMap::new();
    for (ix, name, regs) in lists.iter() {
        for (s, n) in regs.iter() {
            if linked.insert(*s, (*n, *ix)).is_some() {
                violation("C29", "region-linked-twice", format!("region {:#x} appears twice in the region lists (space '{}')", s, name));
            }
        }
    }
    if linked != w.hist.regions {
        let missing: Vec<String> = w.hist.regions.iter().filter(|(k, v)| linked.get(k) != Some(v)).map(|(k, v)| format!("{:#x}:{:?}", k, v)).collect();
        let extra: Vec<String> = linked.iter().filter(|(k, v)| w.hist.regions.get(k) != Some(v)).map(|(k, v)| format!("{:#x}:{:?}", k, v)).collect();
        violation(
            "C29",
            "region-lists-wrong",
            format!("allocated regions not linked (start:(chunks, space)) {:?}; linked but not allocated {:?}", missing, extra),
        );
    }
    // available count
    let live: usize = w.hist.regions.values().map(|(n, _)| *n).sum();
    let total = introspect::available_discontiguous_chunks() + live;
    match w.hist.chunk_total {
        None => w.hist.chunk_total = Some(total),
        Some(t) if t != total => violation(
            "C29",
            "available-count-wrong",
            format!("available chunks {} + allocated {} = {}, but it was {} before", total - live, live, total, t),
        ),
        _ => {}
    }
    w.count("c29_region_map_checks");
}

// ------------------------------------------------------------------------------------------ C34

fn check_lines(w: &mut World, found: &BTreeMap<u64, usize>, info: GcInfo) {
    if info.pause == 2 {
        return;
    }
    let mut checked = 0u64;
    let ids: Vec<u64> = w.pause.scanned_ids.keys().cloned().collect();
    for id in ids {
        let Some(raw) = found.get(&id) else { continue };
        let o = &w.objs[&id];
        let start = *raw - crate::obj::REF_OFFSET;
        let end = start + o.size;
        let Some((_, state, name)) = introspect::immix_line_mark(mmtk(), addr(start)) else { continue };
        let mut l = start & !255;
        while l < end {
            match introspect::immix_line_mark(mmtk(), addr(l)) {
                Some((m, _, _)) if m == state => {}
                other => violation(
                    "C34",
                    "live-line-not-marked",
                    format!(
                        "after pause {}: object {} [{:#x},{:#x}) in '{}' was traced, but its line {:#x} has mark {:?} (current line mark state {})",
                        w.pause.n, id, start, end, name, l, other.map(|x| x.0), state
                    ),
                ),
            }
            l += 256;
            checked += 1;
        }
    }
    w.count_n("c34_lines_checked", checked);
}

// ------------------------------------------------------------------------------------------ C36

fn check_treadmill(w: &mut World, found: &BTreeMap<u64, usize>, info: GcInfo, exact: bool) {
    let tms = introspect::los_treadmills(mmtk());
    let live_addrs: BTreeMap<usize, u64> = found.iter().map(|(id, a)| (*a, *id)).collect();
    // sweeps of this pause
    let swept = std::mem::take(&mut w.hist.los_swept);
    for (a, n) in swept.iter() {
        if *n != 1 {
            violation("C36", "swept-twice", format!("pause {}: large object {:#x} was swept {} times", w.pause.n, a, n));
        }
        if let Some(id) = live_addrs.get(a) {
            violation("C36", "swept-live-object", format!("pause {}: large object {} at {:#x} is reachable but was swept", w.pause.n, id, a));
        }
    }
    w.count_n("c36_los_swept", swept.len() as u64);
    if tms.is_empty() {
        return;
    }
    let names = ["from-space", "to-space", "collection nursery", "allocation nursery"];
    let mut member: BTreeMap<usize, usize> = BTreeMap::new();
    for (_space, sets) in tms.iter() {
        for (k, set) in sets.iter().enumerate() {
            for a in set.iter() {
                if let Some(prev) = member.insert(*a, k) {
                    violation(
                        "C36",
                        "in-two-sets",
                        format!("after pause {}: large object {:#x} is in the {} and the {}", w.pause.n, a, names[prev], names[k]),
                    );
                }
                if swept.contains_key(a) {
                    violation("C36", "swept-still-in-set", format!("after pause {}: large object {:#x} was swept but is still in the {}", w.pause.n, a, names[k]));
                }
            }
            // after a pause that released the space, the collected sets are empty
            if info.pause != 2 && (k == 2 || (k == 0 && info.nursery != Some(true))) && !set.is_empty() && w.plan.collects {
                violation(
                    "C36",
                    "collected-set-not-empty",
                    format!("after pause {}: the {} still holds {} objects, e.g. {:#x}", w.pause.n, names[k], set.len(), set[0]),
                );
            }
        }
    }
    let mut n = 0u64;
    for (a, id) in live_addrs.iter() {
        let o = &w.objs[id];
        if o.space != "los" {
            continue;
        }
        n += 1;
        if !member.contains_key(a) {
            violation("C36", "live-object-not-in-treadmill", format!("after pause {}: live large object {} at {:#x} is in no treadmill set", w.pause.n, id, a));
        }
    }
    w.count_n("c36_los_live_checked", n);
    if exact {
        for (a, k) in member.iter() {
            if !live_addrs.contains_key(a) {
                let who: Vec<String> = w
                    .objs
                    .values()
                    .filter(|o| o.addr == *a)
                    .map(|o| {
                        let refs: Vec<u64> = w.refs.iter().filter(|(_, r)| r.referent == o.id).map(|(id, _)| *id).collect();
                        let eph: Vec<(u64, u64)> = w.ephemerons.iter().filter(|e| e.key == o.id || e.value == o.id).map(|e| (e.key, e.value)).collect();
                        format!("model object {} (kind {}), referent of references {:?}, in ephemerons {:?}, scanned {} times in this pause", o.id, o.kind, refs, eph, w.pause.scanned_ids.get(&o.id).cloned().unwrap_or(0))
                    })
                    .collect();
                violation(
                    "C36",
                    "dead-object-kept",
                    format!("after full-heap GC (pause {}): {:#x} in the {} is not a surviving object ({:?})", w.pause.n, a, names[*k], who),
                );
            }
        }
        w.count("c36_exact_checks");
    }
}

// ------------------------------------------------------------------------------------------ C37

/// `moves`: (id, old reference, new reference) of every surviving object.
pub fn check_compressor_order(w: &mut World, moves: &[(u64, usize, usize)]) {
    if w.plan.name != "Compressor" {
        return;
    }
    let mut per_region: BTreeMap<usize, Vec<(usize, usize, usize, u64)>> = BTreeMap::new();
    for (id, old, new) in moves.iter() {
        let o = &w.objs[id];
        if o.space != "compressor_space" {
            continue;
        }
        let os = *old - crate::obj::REF_OFFSET;
        per_region.entry(os / COMPRESSOR_REGION).or_default().push((os, *new - crate::obj::REF_OFFSET, o.size, *id));
    }
    let exact = w.fin_registered.values().all(|n| *n == 0) && w.fin_ready.values().all(|n| *n == 0);
    let mut n = 0u64;
    for (r, mut v) in per_region {
        v.sort();
        let mut to = r * COMPRESSOR_REGION;
        for (os, ns, size, id) in v {
            if ns > os {
                violation("C37", "moved-up", format!("pause {}: object {} moved up from {:#x} to {:#x}", w.pause.n, id, os, ns));
            }
            // mmtk may legitimately keep objects the model no longer tracks (finalizable objects
            // and what they reach): a gap is then an unknown survivor, never an overlap.
            if ns < to || (exact && ns != to) {
                violation(
                    "C37",
                    "not-packed-in-order",
                    format!(
                        "pause {}: object {} (size {}) of region {:#x} moved {:#x} -> {:#x}, but the live objects before it end at {:#x}",
                        w.pause.n, id, size, r * COMPRESSOR_REGION, os, ns, to
                    ),
                );
            }
            to = ns + size;
            n += 1;
        }
    }
    w.count_n("c37_objects_checked", n);
}

// ------------------------------------------------------------------------------------------ C09

/// Pages a plan may keep in use when nothing is reachable (allocator-retained blocks are returned
/// at every GC, so this is small); plus what each still-reachable object may pin down.
const FLOOR_BYTES: usize = 64 * PAGE;

fn check_floor(w: &mut World, found: &BTreeMap<u64, usize>, used: usize) {
    let mut allowance = FLOOR_BYTES;
    for id in found.keys().chain(w.immortal_dead.iter()) {
        let o = &w.objs[id];
        // a live object can pin its whole block (64 KiB mark-sweep / 32 KiB immix) or its pages
        allowance += (2 * o.size + PAGE).max(64 << 10);
    }
    w.hist.empty_heap_used.push((w.pause.n, used));
    if used > allowance {
        violation(
            "C09",
            "floor-exceeded",
            format!(
                "after exhaustive GC (pause {}): {} bytes are in use although only {} objects survive (allowance {} bytes)",
                w.pause.n, used, found.len(), allowance
            ),
        );
    }
    w.count("c09_floor_checks");
}

// -------------------------------------------------------------------------------------- dispatch

pub fn at_resume(w: &mut World, found: &BTreeMap<u64, usize>, info: GcInfo, used: usize) {
    let full_stw = w.plan.collects && info.nursery != Some(true) && matches!(info.pause, 0 | 1);
    let exact = full_stw && w.fin_registered.values().all(|n| *n == 0) && w.fin_ready.values().all(|n| *n == 0);
    check_accounting(w);
    check_region_map(w);
    check_lines(w, found, info);
    // "nothing dead is kept" needs the model to know every survivor: reference objects and
    // ephemeron tables make mmtk-core keep objects the shadow heap has already let go (referents
    // of dropped reference objects until their table entry is retired, values traced for keys the
    // binding must assume alive), so that part only runs when the run has registered neither.
    let exact_los = exact && w.refs.is_empty() && w.ephemerons.is_empty() && w.counters.get("ephemerons_added").cloned().unwrap_or(0) == 0;
    check_treadmill(w, found, info, exact_los);
    if exact && info.last_exhaustive && w.spec.cfg.reclaim_cycles {
        check_floor(w, found, used);
    }
}
