//! Less common mutator operations.

use crate::spec::*;

type BigLock = mmtk::util::verif::sync::Mutex<()>;

#[allow(clippy::too_many_arguments)]
pub fn copy_region(
    _mid: usize,
    _src: RootRef,
    _sstart: u16,
    _dst: RootRef,
    _dstart: u16,
    _len: u16,
    _mode: u8,
    _lock: &BigLock,
) {
}

pub fn exec(_mid: usize, _op: &Op, _lock: &BigLock) {}
