//! Less common mutator operations.

use crate::exec::{do_alloc_simple, slot_of};
use crate::obj;
use crate::simrt;
use crate::spec::*;
use crate::vm::*;
use crate::world::{violation, with_world, Ephemeron, RefRec};
use mmtk::memory_manager as mm;
use mmtk::scheduler::WorkBucketStage;
use mmtk::util::verif::rt::site;
use mmtk::util::Address;
use std::sync::atomic::{AtomicBool, AtomicU64, Ordering};

type BigLock = mmtk::util::verif::sync::Mutex<()>;

/// Other mutators hold at safepoints while a fork round trip is in progress.
pub static FORK_HOLD: AtomicBool = AtomicBool::new(false);
pub static INJECTED_ADDED: AtomicU64 = AtomicU64::new(0);
pub static INJECTED_RUN: AtomicU64 = AtomicU64::new(0);

#[allow(clippy::too_many_arguments)]
pub fn copy_region(mid: usize, src: RootRef, sstart: u16, dst: RootRef, dstart: u16, len: u16, mode: u8, lock: &BigLock) {
    let (locked, solo) = with_world(|w| (w.spec.cfg.write_mode == 1 && w.nmut > 1, w.nmut == 1));
    if !locked && !solo {
        // partitioned single-writer fields: a range would cross other writers' fields
        return;
    }
    let _g = if locked { Some(lock.lock().unwrap()) } else { None };
    let plan = with_world(|w| {
        let sid = w.root_id(mid, src);
        let did = w.root_id(mid, dst);
        if sid == 0 || did == 0 {
            return None;
        }
        let s = w.objs.get(&sid)?;
        let d = w.objs.get(&did)?;
        if s.kind != obj::KIND_NORMAL || d.kind != obj::KIND_NORMAL || s.nrefs == 0 || d.nrefs == 0 {
            return None;
        }
        let ss = sstart as usize % s.nrefs;
        let ds = dstart as usize % d.nrefs;
        let n = (len as usize).min(s.nrefs - ss).min(d.nrefs - ds);
        if n == 0 {
            return None;
        }
        Some((sid, did, w.root_raw(mid, src), w.root_raw(mid, dst), ss, ds, n))
    });
    let Some((sid, did, sraw, draw, ss, ds, n)) = plan else { return };
    let m = mutator_ref(mid);
    let sslice = slot_of(sraw, ss)..slot_of(sraw, ss + n);
    let dslice = slot_of(draw, ds)..slot_of(draw, ds + n);
    let satb = with_world(|w| w.plan.barrier_satb);
    let update_model = |w: &mut crate::world::World| {
        let vals: Vec<u64> = w.objs[&sid].fields[ss..ss + n].to_vec();
        let d = w.objs.get_mut(&did).unwrap();
        let unmoved = matches!(d.sem, SEM_IMMORTAL | SEM_NONMOVING);
        for (i, v) in vals.iter().enumerate() {
            if crate::world::watch_id() != 0 && d.fields[ds + i] == crate::world::watch_id() {
                eprintln!("WATCHID copy_region overwrites field {} of object {} ({} -> {}) mutator {} mode {}", ds + i, did, d.fields[ds + i], v, mid, mode);
            }
            d.fields[ds + i] = *v;
        }
        if unmoved && vals.iter().any(|v| *v != 0) {
            w.count("ref_stored_in_immortal_or_nonmoving");
        }
        w.count("region_copies");
    };
    if satb || mode == 1 {
        // pre + copy (+ post).  SATB's post barrier is unimplemented in mmtk-core.
        mm::memory_region_copy_pre(m, sslice.clone(), dslice.clone());
        with_world(|w| {
            unsafe {
                std::ptr::copy::<usize>(sslice.start.to_ptr(), dslice.start.to_mut_ptr(), n);
            }
            update_model(w);
        });
        if !satb {
            let m = mutator_ref(mid);
            mm::memory_region_copy_post(m, sslice, dslice);
        }
    } else {
        with_world(update_model);
        mm::memory_region_copy(m, sslice, dslice);
    }
}

fn immix_default_space(w: &crate::world::World) -> bool {
    matches!(w.plan.name.as_str(), "Immix" | "StickyImmix" | "ConcurrentImmix")
}

pub fn exec(mid: usize, op: &Op, lock: &BigLock) {
    match op {
        Op::Pin { root } | Op::Unpin { root } => {
            let is_pin = matches!(op, Op::Pin { .. });
            let t = with_world(|w| {
                if !immix_default_space(w) {
                    return None;
                }
                let id = w.root_id(mid, *root);
                if id == 0 {
                    return None;
                }
                let o = w.objs.get_mut(&id)?;
                if o.sem != SEM_DEFAULT {
                    return None;
                }
                o.pin_ops += 1;
                Some((id, o.addr))
            });
            let Some((id, raw)) = t else { return };
            let oref = obj::raw_to_ref(raw).unwrap();
            let r = if is_pin { mm::pin_object(oref) } else { mm::unpin_object(oref) };
            with_world(|w| {
                if let Some(o) = w.objs.get_mut(&id) {
                    if r {
                        if is_pin {
                            o.pins_true += 1;
                        } else {
                            o.unpins_true += 1;
                        }
                    }
                    let bal = o.pins_true as i64 - o.unpins_true as i64;
                    // With a single mutator (or the big lock) there is no concurrency: the result
                    // is fully determined.
                    if w.nmut == 1 && !(0..=1).contains(&bal) {
                        violation(
                            "C18",
                            "pin-result",
                            format!("object {}: {} returned {} but pin balance is now {}", id, if is_pin { "pin_object" } else { "unpin_object" }, r, bal),
                        );
                    }
                }
                w.count(if is_pin { "pin_ops" } else { "unpin_ops" });
                if r {
                    w.count(if is_pin { "pin_true" } else { "unpin_true" });
                }
            });
        }
        Op::AddRef { kind, referent, root } => {
            // References to immortal objects are not generated: mmtk-core documents that an
            // immortal object answers is_live() = true even when unreachable, so such a reference
            // is never cleared while its (untraced) referent's fields go stale.
            let ok = with_world(|w| {
                let tid = w.root_id(mid, *referent);
                !w.spec.cfg.no_reference_types
                    && w.plan.collects
                    && tid != 0
                    && w.objs.get(&tid).map(|o| o.sem != SEM_IMMORTAL).unwrap_or(false)
            });
            if !ok {
                return;
            }
            let k = match kind {
                1 => obj::KIND_SOFT,
                2 => obj::KIND_WEAK,
                _ => obj::KIND_PHANTOM,
            };
            // The referent must stay reachable across the allocation (it is in a root).
            let Some((rid, rraw)) = do_alloc_simple(mid, 48, 2, k) else { return };
            let (tid, traw) = with_world(|w| (w.root_id(mid, *referent), w.root_raw(mid, *referent)));
            if tid == 0 {
                return;
            }
            let slot = slot_of(rraw, 0);
            with_world(|w| {
                unsafe { slot.store::<usize>(traw) };
                if let Some(o) = w.objs.get_mut(&rid) {
                    o.fields[0] = tid;
                }
                w.refs.insert(
                    rid,
                    RefRec {
                        kind: k,
                        referent: tid,
                        cleared: false,
                        enqueued: 0,
                    },
                );
                w.set_root(mid, *root, rid, rraw);
                w.count("refs_added");
            });
            let r = obj::raw_to_ref(rraw).unwrap();
            match k {
                obj::KIND_SOFT => mm::add_soft_candidate(mmtk(), r),
                obj::KIND_WEAK => mm::add_weak_candidate(mmtk(), r),
                _ => mm::add_phantom_candidate(mmtk(), r),
            }
        }
        Op::GetReferent { src, dst } => {
            let t = with_world(|w| {
                let id = w.root_id(mid, *src);
                if id == 0 {
                    return None;
                }
                let o = w.objs.get(&id)?;
                if o.kind == obj::KIND_NORMAL {
                    return None;
                }
                Some(w.root_raw(mid, *src))
            });
            let Some(rraw) = t else { return };
            let slot = slot_of(rraw, 0);
            let v = unsafe { slot.load::<usize>() };
            if v == 0 {
                with_world(|w| w.set_root(mid, *dst, 0, 0));
                return;
            }
            // A non-null referent field of a live reference object must refer to a live object
            // (checked before the value is handed to the weak-load barrier).
            with_world(|w| {
                let ok = crate::oracle::is_mapped(v) && v % 8 == 0 && {
                    let h = obj::read_hdr(unsafe { Address::from_usize(v - obj::REF_OFFSET) });
                    w.objs.contains_key(&h.id) && h.tomb == 0
                };
                if !ok {
                    violation(
                        "C06",
                        "referent-garbage",
                        format!("mutator {}: referent field of a live reference object holds {:#x}, which is not a live object", mid, v),
                    );
                }
            });
            // weak-load barrier (SATB keeps the referent alive during concurrent marking)
            let m = mutator_ref(mid);
            m.barrier.load_weak_reference(obj::raw_to_ref(v).unwrap());
            with_world(|w| {
                let v2 = unsafe { slot.load::<usize>() };
                if v2 == 0 {
                    w.set_root(mid, *dst, 0, 0);
                    return;
                }
                let h = obj::read_hdr(unsafe { Address::from_usize(v2 - obj::REF_OFFSET) });
                if !w.objs.contains_key(&h.id) || h.tomb != 0 {
                    violation(
                        "C06",
                        "referent-garbage",
                        format!("mutator {} loaded referent {:#x} of a live reference object; header {:?} is not a live object", mid, v2, h),
                    );
                }
                w.set_root(mid, *dst, h.id, v2);
                w.count("referents_loaded");
            });
        }
        Op::AddFinalizer { root } => {
            let t = with_world(|w| {
                if w.spec.cfg.no_finalizer || !w.plan.collects {
                    return None;
                }
                let id = w.root_id(mid, *root);
                if id == 0 || w.objs.get(&id).map(|o| o.sem == SEM_IMMORTAL).unwrap_or(true) {
                    return None;
                }
                // Reference objects are not made finalizable: an unreachable reference object is
                // dropped from the reference tables before finalization resurrects it, and what its
                // (weak) referent field then means is not covered by C06's statement.
                if w.objs.get(&id).map(|o| o.kind != obj::KIND_NORMAL).unwrap_or(true) {
                    return None;
                }
                *w.fin_registered.entry(id).or_insert(0) += 1;
                w.count("finalizers_added");
                Some(w.root_raw(mid, *root))
            });
            if let Some(raw) = t {
                mm::add_finalizer(mmtk(), obj::raw_to_ref(raw).unwrap());
            }
        }
        Op::PopFinalized { dst } => pop_finalized(mid, *dst),
        Op::FinalizersFor { root } => {
            let t = with_world(|w| {
                if w.spec.cfg.no_finalizer || !w.plan.collects {
                    return None;
                }
                let id = w.root_id(mid, *root);
                if id == 0 {
                    return None;
                }
                Some((id, w.root_raw(mid, *root)))
            });
            if let Some((id, raw)) = t {
                let o = obj::raw_to_ref(raw).unwrap();
                let got = mm::get_finalizers_for(mmtk(), o);
                with_world(|w| {
                    let want = w.fin_registered.get(&id).cloned().unwrap_or(0) as usize;
                    if got.len() != want || got.iter().any(|x| *x != o) {
                        violation(
                            "C06",
                            "finalizers-for-wrong",
                            format!(
                                "get_finalizers_for(object {} at {:#x}) returned {:?}; the object has {} outstanding finalizer registration(s)",
                                id, raw, got, want
                            ),
                        );
                    }
                    w.fin_registered.insert(id, 0);
                    w.fin_unreachable_seen.remove(&id);
                    w.count("finalizers_for");
                });
            }
        }
        Op::AddEphemeron { key, value } => with_world(|w| {
            if !w.plan.collects {
                return;
            }
            let k = w.root_id(mid, *key);
            let v = w.root_id(mid, *value);
            if k == 0 || v == 0 || k == v {
                return;
            }
            if w.ephemerons.iter().any(|e| e.key == k && e.value == v) {
                return;
            }
            let ka = w.root_raw(mid, *key);
            let va = w.root_raw(mid, *value);
            w.ephemerons.push(Ephemeron {
                key: k,
                value: v,
                key_addr: ka,
                value_addr: va,
                value_traced_in_pause: 0,
                key_fwd: 0,
                settled_in_pause: 0,
            });
            w.count("ephemerons_added");
        }),
        Op::ForkCycle => fork_cycle(mid),
        Op::InjectPackets { n, fanout } => {
            for _ in 0..*n {
                let seq = crate::world::new_injected(0, 0);
                INJECTED_ADDED.fetch_add(1 + *fanout as u64, Ordering::SeqCst);
                mm::add_work_packet(
                    mmtk(),
                    WorkBucketStage::Unconstrained,
                    InjectedPacket { seq, fanout: *fanout },
                );
            }
            with_world(|w| w.count_n("packets_injected", *n as u64));
            // The binding waits for its packets (C14: a parked worker must be woken for them).
            MUT_PARKED[mid].store(true, Ordering::SeqCst);
            simrt::block_until("injected packets executed", || {
                INJECTED_RUN.load(Ordering::SeqCst) >= INJECTED_ADDED.load(Ordering::SeqCst)
            });
            simrt::block_until("world resumed", || !STOP_REQUESTED.load(Ordering::SeqCst));
            MUT_PARKED[mid].store(false, Ordering::SeqCst);
        }
        Op::Probe => {
            with_world(|w| w.probe_requested = true);
            crate::exec::exec_op(mid, &Op::Gc { force: true, exhaustive: true });
        }
        Op::Rebind { flush_first } => {
            // destroy_mutator flushes by itself; flushing first must be harmless
            let old = MUTATORS[mid].load(Ordering::SeqCst);
            let m = unsafe { &mut *old };
            if *flush_first {
                mm::flush_mutator(m);
            }
            mm::destroy_mutator(m);
            let fresh = mm::bind_mutator(mmtk(), mutator_tls(mid));
            MUTATORS[mid].store(Box::into_raw(fresh), Ordering::SeqCst);
            // the old Mutator box is leaked on purpose (a GC packet may still hold a reference
            // obtained before the swap; it cannot, because we are not at a safepoint, but leaking
            // a few hundred bytes is cheaper than being wrong)
            with_world(|w| w.count("mutator_rebinds"));
        }
        _ => {}
    }
    let _ = lock;
    let _ = site::CLASS_BINDING;
}

fn pop_finalized(mid: usize, dst: Option<RootRef>) {
    let ok = with_world(|w| !w.spec.cfg.no_finalizer && w.plan.collects);
    if !ok {
        return;
    }
    let Some(o) = mm::get_finalized_object(mmtk()) else {
        with_world(|w| w.count("pop_finalized_none"));
        return;
    };
    let raw = o.to_raw_address().as_usize();
    with_world(|w| {
        if !crate::oracle::is_mapped(raw) {
            violation(
                "C06",
                "finalized-unmapped",
                format!("get_finalized_object returned {:#x} which is not mapped", raw),
            );
        }
        let h = obj::read_hdr(unsafe { Address::from_usize(raw - obj::REF_OFFSET) });
        let id = h.id;
        let registered = w.fin_registered.get(&id).cloned().unwrap_or(0);
        if !w.objs.contains_key(&id) || registered == 0 {
            violation(
                "C06",
                "finalized-unexpected",
                format!("get_finalized_object returned {:#x} (header {:?}) which has no outstanding finalizer registration", raw, h),
            );
        }
        if !w.fin_unreachable_seen.contains(&id) {
            violation(
                "C06",
                "finalized-reachable",
                format!("get_finalized_object returned object {} which has been strongly reachable at the end of every pause since its registration", id),
            );
        }
        *w.fin_registered.get_mut(&id).unwrap() -= 1;
        *w.fin_popped.entry(id).or_insert(0) += 1;
        if w.fin_registered[&id] == 0 {
            w.fin_unreachable_seen.remove(&id);
        }
        // the object and everything it references must be intact
        let mut wk = crate::oracle::Walker::new("finalized object");
        wk.from_value(w, raw, id, 0, "C06");
        for (fid, faddr) in wk.found.iter() {
            if let Some(so) = w.objs.get_mut(fid) {
                so.addr = *faddr;
            }
        }
        w.count("finalized_popped");
        // While concurrent marking is in progress a popped object is not stored into a root: it is
        // neither part of the snapshot nor newly allocated and there is no barrier for this
        // path, so the program would not be SATB-legal.
        match dst {
            Some(r) if !w.satb_active => w.set_root(mid, r, id, raw),
            _ => {}
        }
    });
}

fn fork_cycle(mid: usize) {
    if mid != 0 {
        return;
    }
    let ok = with_world(|w| w.plan.collects || true);
    if !ok {
        return;
    }
    // No mutator may allocate between prepare_to_fork and after_fork: hold the others at their
    // next safepoint, and behave like a thread in native code ourselves (so that a GC that is
    // already requested can run to completion before the workers stop).
    FORK_HOLD.store(true, Ordering::SeqCst);
    MUT_PARKED[mid].store(true, Ordering::SeqCst);
    simrt::block_until("other mutators held for fork", all_active_parked);
    let workers = with_world(|w| {
        w.workers_exited.clear();
        w.workers_spawned.clear();
        w.spec.cfg.workers
    });
    mmtk().prepare_to_fork();
    simrt::block_until("all GC workers exited", || WORKERS_ALIVE.load(Ordering::SeqCst) == 0);
    with_world(|w| {
        let mut ex = w.workers_exited.clone();
        ex.sort();
        let want: Vec<usize> = (0..workers).collect();
        if ex != want {
            violation(
                "C16",
                "workers-exit-set",
                format!("after prepare_to_fork the workers that exited are {:?}, expected each of {:?} exactly once", w.workers_exited, want),
            );
        }
        w.fork_epoch += 1;
        w.count("fork_cycles");
    });
    simrt::yield_now(site::mk(site::CLASS_BINDING, 30));
    mmtk().after_fork(tls_of(TLS_MUTATOR_BASE + mid));
    with_world(|w| {
        let mut sp = w.workers_spawned.clone();
        sp.sort();
        let want: Vec<usize> = (0..workers).collect();
        if sp != want {
            violation(
                "C16",
                "workers-respawn-set",
                format!("after_fork spawned workers {:?}, expected each of {:?} exactly once", w.workers_spawned, want),
            );
        }
    });
    FORK_HOLD.store(false, Ordering::SeqCst);
    simrt::block_until("world resumed", || !STOP_REQUESTED.load(Ordering::SeqCst));
    MUT_PARKED[mid].store(false, Ordering::SeqCst);
}
