//! Run specification: everything a run depends on.  A run is a pure function of a `RunSpec`.

use crate::simrt::SchedConfig;
use serde::{Deserialize, Serialize};

#[derive(Clone, Debug, Serialize, Deserialize, PartialEq, Eq, Copy)]
pub struct RootRef {
    /// global root array?
    pub g: bool,
    pub i: u16,
}

#[derive(Clone, Debug, Serialize, Deserialize)]
#[serde(tag = "op")]
pub enum Op {
    Alloc {
        size: usize,
        align: usize,
        offset: usize,
        sem: u8,
        nrefs: u16,
        kind: u8,
        root: RootRef,
    },
    AllocOpt {
        size: usize,
        align: usize,
        offset: usize,
        sem: u8,
        nrefs: u16,
        root: RootRef,
        overcommit: bool,
        at_safepoint: bool,
        oom_call: bool,
    },
    Write {
        src: RootRef,
        field: u16,
        val: Option<RootRef>,
        /// 0 = subsuming object_reference_write, 1 = pre + store + post
        mode: u8,
    },
    Load {
        src: RootRef,
        field: u16,
        dst: RootRef,
    },
    CopyRegion {
        src: RootRef,
        sstart: u16,
        dst: RootRef,
        dstart: u16,
        len: u16,
        mode: u8,
    },
    Drop {
        root: RootRef,
    },
    Move {
        from: RootRef,
        to: RootRef,
    },
    Gc {
        force: bool,
        exhaustive: bool,
    },
    Poll,
    Pin {
        root: RootRef,
    },
    Unpin {
        root: RootRef,
    },
    /// Allocate a reference object (kind 1 soft, 2 weak, 3 phantom) whose referent is `referent`,
    /// register it as a candidate and store it in `root`.
    AddRef {
        kind: u8,
        referent: RootRef,
        root: RootRef,
    },
    /// Load the referent of the reference object in `src` into `dst` (through the weak-load barrier).
    GetReferent {
        src: RootRef,
        dst: RootRef,
    },
    AddFinalizer {
        root: RootRef,
    },
    PopFinalized {
        dst: Option<RootRef>,
    },
    /// `get_finalizers_for(object in root)`: pops every outstanding finalizer registration of that
    /// object, whether still a candidate or already ready.
    FinalizersFor {
        root: RootRef,
    },
    /// Add an ephemeron (key, value) pair to the VM-side weak table.
    AddEphemeron {
        key: RootRef,
        value: RootRef,
    },
    /// prepare_to_fork + wait for workers + after_fork (only executed by mutator 0).
    ForkCycle,
    /// Inject `n` binding-defined work packets into an open bucket via add_work_packet.
    InjectPackets {
        n: u16,
        fanout: u8,
    },
    /// World-stopped probes: enumerate objects and interior pointer lookups (variant A/B).
    Probe,
    Yield,
    /// Destroy this mutator and bind a fresh one (same thread).
    Rebind {
        flush_first: bool,
    },
    /// One operation of a component simulation (meaning depends on the component, see comp.rs).
    Comp {
        k: u8,
        a: u64,
        b: u64,
        c: u64,
    },
}

#[derive(Clone, Debug, Serialize, Deserialize)]
pub struct VmConfig {
    pub plan: String,
    pub workers: usize,
    pub heap_bytes: usize,
    /// Some((min,max)) => DynamicHeapSize
    pub dynamic_heap: Option<(usize, usize)>,
    /// Bounded nursery (min,max) for generational plans
    pub nursery: Option<(usize, usize)>,
    pub stress_factor: Option<usize>,
    pub layout32: bool,
    pub no_finalizer: bool,
    pub no_reference_types: bool,
    pub full_heap_system_gc: bool,
    pub immix_always_defrag: bool,
    pub immix_defrag_every_block: bool,
    pub defrag_headroom_percent: Option<usize>,
    pub count_live_bytes: bool,
    pub disable_concurrent_marking: bool,
    pub root_batch: usize,
    pub meta_base: usize,
    /// 0 = partitioned single-writer fields, 1 = big mutator lock around writes
    pub write_mode: u8,
    /// fraction (percent) of roots reported as pinning / transitively pinning roots
    pub pinning_roots_pct: u8,
    pub tpinning_roots_pct: u8,
    /// Final forced exhaustive GCs before the end-of-run checks.
    pub final_gcs: u8,
    /// This run deliberately exercises a combination listed in known_findings.jsonl.
    #[serde(default)]
    pub kf_probe: bool,
    /// The programs are allocate / drop-everything / exhaustive-GC cycles whose live set never
    /// exceeds a fixed fraction of the heap (C09): an OOM or a growing floor is a violation.
    #[serde(default)]
    pub reclaim_cycles: bool,
    /// with layout32: size of the whole heap address range in 4 MiB chunks (0 = 7 GiB), so that
    /// the shared chunk pool of the Map32 layout actually runs out
    #[serde(default)]
    pub layout32_chunks: usize,
    /// parameters of a component simulation (plan == "comp"; meaning depends on `focus`)
    #[serde(default)]
    pub comp: Vec<u64>,
}

impl Default for VmConfig {
    fn default() -> Self {
        VmConfig {
            plan: "SemiSpace".into(),
            workers: 2,
            heap_bytes: 16 << 20,
            dynamic_heap: None,
            nursery: None,
            stress_factor: None,
            layout32: false,
            no_finalizer: false,
            no_reference_types: false,
            full_heap_system_gc: false,
            immix_always_defrag: false,
            immix_defrag_every_block: false,
            defrag_headroom_percent: None,
            count_live_bytes: false,
            disable_concurrent_marking: false,
            root_batch: 8,
            meta_base: 0x1000_0000_0000,
            write_mode: 0,
            pinning_roots_pct: 0,
            tpinning_roots_pct: 0,
            final_gcs: 1,
            kf_probe: false,
            reclaim_cycles: false,
            comp: Vec::new(),
            layout32_chunks: 0,
        }
    }
}

#[derive(Clone, Debug, Serialize, Deserialize)]
pub struct RunSpec {
    pub variant: String,
    pub focus: String,
    pub seed: u64,
    pub cfg: VmConfig,
    pub sched: SchedConfig,
    pub programs: Vec<Vec<Op>>,
    /// Human-readable description of the workload shape.
    #[serde(default)]
    pub shape: String,
}

pub const SEM_DEFAULT: u8 = 0;
pub const SEM_IMMORTAL: u8 = 1;
pub const SEM_LOS: u8 = 2;
pub const SEM_NONMOVING: u8 = 6;

pub fn sem_of(s: u8) -> mmtk::AllocationSemantics {
    use mmtk::AllocationSemantics::*;
    match s {
        0 => Default,
        1 => Immortal,
        2 => Los,
        3 => Code,
        4 => ReadOnly,
        5 => LargeCode,
        6 => NonMoving,
        _ => Default,
    }
}

pub fn variant_name() -> &'static str {
    if cfg!(feature = "var_b") {
        "B"
    } else if cfg!(feature = "var_c") {
        "C"
    } else {
        "A"
    }
}
