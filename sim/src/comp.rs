//! Component-level simulations: one real mmtk-core component driven by simulated threads under
//! the token scheduler, checked against a small sequential reference model.
//!
//! A component run is a `RunSpec` with `cfg.plan == "comp"`; `focus` selects the component,
//! `cfg.comp` holds its parameters and `programs[t]` is the list of `Op::Comp` of thread `t`.
//!
//!   C19  BlockPool            (worker-local pushes, global pops, flushes)
//!   C20  SideMetadataSpec     (atomic accesses to neighbouring fields from several threads)
//!   C23  HeaderMetadataSpec   (same, for bit fields in an object header)
//!   C30  ChunkStateMmapper    (concurrent quarantine / ensure_mapped with failing mmap calls)

use crate::exec::new_world;
use crate::simrt;
use crate::spec::{Op, RunSpec};
use crate::world::{self, harness_error, violation, with_world, PlanInfo};
use mmtk::util::metadata::header_metadata::HeaderMetadataSpec;
use mmtk::util::metadata::side_metadata::SideMetadataSpec;
use mmtk::util::metadata::MetadataValue;
use mmtk::util::verif::export::{self, VerifBlockPool, VerifMmapper};
use mmtk::util::verif::rt::site;
use mmtk::util::Address;
use std::collections::{BTreeMap, BTreeSet};
use std::sync::atomic::{AtomicBool, AtomicUsize, Ordering};
use std::sync::{Arc, Mutex};

static DONE: AtomicUsize = AtomicUsize::new(0);

fn addr(a: usize) -> Address {
    unsafe { Address::from_usize(a) }
}

fn op_boundary() {
    simrt::yield_now(site::mk(site::CLASS_BINDING, 40));
}

fn comp_ops(p: &[Op]) -> Vec<(u8, u64, u64, u64)> {
    p.iter()
        .filter_map(|o| match o {
            Op::Comp { k, a, b, c } => Some((*k, *a, *b, *c)),
            _ => None,
        })
        .collect()
}

pub fn run(spec: RunSpec) -> ! {
    let plan = PlanInfo {
        name: "comp".into(),
        moves: false,
        generational: false,
        collects: false,
        concurrent: false,
        needs_forward: false,
        max_non_los: 0,
        barrier_satb: false,
        barrier_object: false,
        sem_ok: [false; 8],
        pins: false,
        root_rounds: 1,
    };
    let n = spec.programs.len();
    world::install_world(new_world(&spec, plan, n));
    match spec.focus.as_str() {
        "C19" => pool(spec),
        "C20" => side(spec),
        "C23" => header(spec),
        "C30" => mmapper(spec),
        f => harness_error(format!("no component simulation for {}", f)),
    }
}

fn join_all(n: usize) {
    simrt::block_until("all component threads finished", move || DONE.load(Ordering::SeqCst) == n);
}

// ============================================================================================ C19

const POOL_BASE: usize = 0x7000_0000_0000;
const BLOCK: usize = 1 << 15;

#[derive(Default)]
struct PoolModel {
    pushed: BTreeSet<u64>,
    popped: BTreeSet<u64>,
}

static PUSHERS: AtomicUsize = AtomicUsize::new(0);
static FLUSHING: AtomicBool = AtomicBool::new(false);

fn pool_check_pop(m: &Mutex<PoolModel>, a: Address, who: &str) {
    let x = a.as_usize();
    let mut g = m.lock().unwrap();
    if x < POOL_BASE || (x - POOL_BASE) % BLOCK != 0 || !g.pushed.contains(&(((x - POOL_BASE) / BLOCK) as u64)) {
        violation("C19", "popped-unknown-block", format!("{} popped {:#x}, which was never pushed", who, x));
    }
    let id = ((x - POOL_BASE) / BLOCK) as u64;
    if !g.popped.insert(id) {
        violation("C19", "popped-twice", format!("{} popped block {} ({:#x}) which had already been popped", who, id, x));
    }
}

/// ops: 1 push(a = block id, workers only), 2 pop, 4 flush_all (excluded against pushes, which is
/// the contract of the thread-local queues: flushing happens when no worker is releasing blocks)
fn pool(spec: RunSpec) -> ! {
    let nworkers = spec.cfg.comp.first().cloned().unwrap_or(2) as usize;
    let pool = Arc::new(VerifBlockPool::new(nworkers));
    let model = Arc::new(Mutex::new(PoolModel::default()));
    let n = spec.programs.len();
    for (t, p) in spec.programs.iter().enumerate() {
        let ops = comp_ops(p);
        let pool = pool.clone();
        let model = model.clone();
        let is_worker = t < nworkers;
        let name = if is_worker { format!("worker{}", t) } else { format!("popper{}", t) };
        let nm = name.clone();
        simrt::spawn(&name, move || {
            if is_worker {
                export::set_worker_ordinal(t);
            }
            for (k, a, _b, _c) in ops {
                op_boundary();
                match k {
                    1 if is_worker => {
                        simrt::block_until("no flush in progress", || !FLUSHING.load(Ordering::SeqCst));
                        PUSHERS.fetch_add(1, Ordering::SeqCst);
                        {
                            let mut g = model.lock().unwrap();
                            if !g.pushed.insert(a) {
                                drop(g);
                                PUSHERS.fetch_sub(1, Ordering::SeqCst);
                                continue; // the same block is never pushed twice
                            }
                        }
                        pool.push(addr(POOL_BASE + a as usize * BLOCK));
                        PUSHERS.fetch_sub(1, Ordering::SeqCst);
                        with_world(|w| w.count("c19_pushes"));
                    }
                    2 => {
                        if let Some(b) = pool.pop() {
                            pool_check_pop(&model, b, &nm);
                            with_world(|w| w.count("c19_pops"));
                        } else {
                            with_world(|w| w.count("c19_pops_none"));
                        }
                    }
                    4 => {
                        simrt::block_until("no push in progress", || PUSHERS.load(Ordering::SeqCst) == 0 && !FLUSHING.load(Ordering::SeqCst));
                        FLUSHING.store(true, Ordering::SeqCst);
                        pool.flush_all();
                        FLUSHING.store(false, Ordering::SeqCst);
                        with_world(|w| w.count("c19_flushes"));
                    }
                    _ => {}
                }
            }
            DONE.fetch_add(1, Ordering::SeqCst);
        });
    }
    join_all(n);
    // quiescent checks
    let held: BTreeSet<u64> = {
        let g = model.lock().unwrap();
        g.pushed.difference(&g.popped).cloned().collect()
    };
    if pool.len() != held.len() {
        violation("C19", "len-wrong", format!("len() = {} but {} blocks are held", pool.len(), held.len()));
    }
    let mut seen: BTreeMap<u64, u32> = BTreeMap::new();
    for b in pool.blocks() {
        let x = b.as_usize();
        let id = if x >= POOL_BASE && (x - POOL_BASE) % BLOCK == 0 { ((x - POOL_BASE) / BLOCK) as u64 } else { u64::MAX };
        *seen.entry(id).or_insert(0) += 1;
    }
    for (id, c) in seen.iter() {
        if *c != 1 || !held.contains(id) {
            violation("C19", "iterate-wrong", format!("iterate_blocks reports block {} {} times; held: {}", id, c, held.contains(id)));
        }
    }
    if seen.len() != held.len() {
        violation("C19", "iterate-wrong", format!("iterate_blocks reports {} blocks, {} are held", seen.len(), held.len()));
    }
    pool.flush_all();
    let mut got = 0usize;
    while let Some(b) = pool.pop() {
        pool_check_pop(&model, b, "main");
        got += 1;
        if got > held.len() {
            break;
        }
    }
    if got != held.len() || pool.len() != 0 {
        violation(
            "C19",
            "block-lost",
            format!("after flush_all only {} of the {} held blocks could be popped (len() is now {})", got, held.len(), pool.len()),
        );
    }
    with_world(|w| w.count_n("c19_blocks_total", held.len() as u64));
    world::finish_ok()
}

// ============================================================================================ C20

const DATA_BASE: usize = 0x2400_0000_0000;

fn width_mask(bits: u32) -> u64 {
    if bits >= 64 {
        u64::MAX
    } else {
        (1u64 << bits) - 1
    }
}

/// A field accessor abstracts over side and header specs and over the access type.
trait Field: Sync + Send {
    fn bits(&self) -> u32;
    fn load(&self, i: usize) -> u64;
    fn store(&self, i: usize, v: u64);
    fn fetch_add(&self, i: usize, v: u64) -> u64;
    fn fetch_sub(&self, i: usize, v: u64) -> u64;
    fn fetch_and(&self, i: usize, v: u64) -> u64;
    fn fetch_or(&self, i: usize, v: u64) -> u64;
    fn cas(&self, i: usize, old: u64, new: u64) -> Result<u64, u64>;
    fn fetch_update(&self, i: usize, new: Option<u64>) -> Result<u64, u64>;
    fn describe(&self, i: usize) -> String;
    /// Masked accessors (header metadata of 8 bits or more only).
    fn store_masked(&self, _i: usize, _v: u64, _mask: u64) -> bool {
        false
    }
    fn load_masked(&self, _i: usize, _mask: u64) -> Option<u64> {
        None
    }
}

struct SideFields {
    spec: SideMetadataSpec,
}

macro_rules! with_ty {
    ($bits:expr, $t:ident, $body:block) => {
        match $bits {
            0..=8 => {
                type $t = u8;
                $body
            }
            16 => {
                type $t = u16;
                $body
            }
            32 => {
                type $t = u32;
                $body
            }
            _ => {
                type $t = u64;
                $body
            }
        }
    };
}

fn cv<T: MetadataValue>(v: u64) -> T {
    T::from_u64(v).unwrap()
}
fn uc<T: MetadataValue>(v: T) -> u64 {
    v.to_u64().unwrap()
}

impl SideFields {
    fn a(&self, i: usize) -> Address {
        addr(DATA_BASE + (i << self.spec.log_bytes_in_region))
    }
}

impl Field for SideFields {
    fn bits(&self) -> u32 {
        1 << self.spec.log_num_of_bits
    }
    fn load(&self, i: usize) -> u64 {
        with_ty!(self.bits(), T, { uc(self.spec.load_atomic::<T>(self.a(i), Ordering::SeqCst)) })
    }
    fn store(&self, i: usize, v: u64) {
        with_ty!(self.bits(), T, { self.spec.store_atomic::<T>(self.a(i), cv(v), Ordering::SeqCst) })
    }
    fn fetch_add(&self, i: usize, v: u64) -> u64 {
        with_ty!(self.bits(), T, { uc(self.spec.fetch_add_atomic::<T>(self.a(i), cv(v), Ordering::SeqCst)) })
    }
    fn fetch_sub(&self, i: usize, v: u64) -> u64 {
        with_ty!(self.bits(), T, { uc(self.spec.fetch_sub_atomic::<T>(self.a(i), cv(v), Ordering::SeqCst)) })
    }
    fn fetch_and(&self, i: usize, v: u64) -> u64 {
        with_ty!(self.bits(), T, { uc(self.spec.fetch_and_atomic::<T>(self.a(i), cv(v), Ordering::SeqCst)) })
    }
    fn fetch_or(&self, i: usize, v: u64) -> u64 {
        with_ty!(self.bits(), T, { uc(self.spec.fetch_or_atomic::<T>(self.a(i), cv(v), Ordering::SeqCst)) })
    }
    fn cas(&self, i: usize, old: u64, new: u64) -> Result<u64, u64> {
        with_ty!(self.bits(), T, {
            self.spec
                .compare_exchange_atomic::<T>(self.a(i), cv(old), cv(new), Ordering::SeqCst, Ordering::SeqCst)
                .map(uc)
                .map_err(uc)
        })
    }
    fn fetch_update(&self, i: usize, new: Option<u64>) -> Result<u64, u64> {
        with_ty!(self.bits(), T, {
            self.spec
                .fetch_update_atomic::<T, _>(self.a(i), Ordering::SeqCst, Ordering::SeqCst, |_| new.map(cv::<T>))
                .map(uc)
                .map_err(uc)
        })
    }
    fn describe(&self, i: usize) -> String {
        format!(
            "side metadata field of region {} (data address {:#x}, {} bits per {}-byte region)",
            i,
            self.a(i).as_usize(),
            self.bits(),
            1usize << self.spec.log_bytes_in_region
        )
    }
}

/// Each field has exactly one writer thread, so its history is sequential and the model is a
/// plain map; what the other threads do to neighbouring fields must never be visible in it.
/// ops: k = 1 load, 2 store, 3 fetch_add, 4 fetch_sub, 5 fetch_and, 6 fetch_or, 7 cas with the
/// right expectation, 8 cas with a wrong expectation, 9 fetch_update Some, 10 fetch_update None;
/// a = field index (mapped to a field owned by the thread), b = operand
fn run_fields(prop: &'static str, spec: &RunSpec, f: Arc<dyn Field>, nfields: usize) {
    let n = spec.programs.len();
    let finals: Arc<Mutex<Vec<(usize, u64)>>> = Arc::new(Mutex::new(Vec::new()));
    // four more regions right behind the single-writer ones are shared counters
    let shared = Arc::new(Shared {
        fields: (nfields..nfields + 4).collect(),
        sums: (0..4).map(|_| std::sync::atomic::AtomicU64::new(0)).collect(),
        masked: None,
        masked_hist: Mutex::new(BTreeSet::new()),
    });
    spawn_field_threads(prop, spec, f.clone(), nfields, n.max(1), finals.clone(), (0..nfields + 4).collect(), shared.clone());
    join_all(n);
    check_shared(prop, &f, &shared);
    let g = finals.lock().unwrap();
    for (i, want) in g.iter() {
        let got = f.load(*i);
        if got != *want {
            violation(
                prop,
                "final-value-wrong",
                format!("the {} finally holds {:#x}, its writer left {:#x}", f.describe(*i), got, want),
            );
        }
    }
    with_world(|w| w.count_n("fields_checked", g.len() as u64));
}

fn side(spec: RunSpec) -> ! {
    let log_bits = spec.cfg.comp.first().cloned().unwrap_or(0) as usize;
    let log_region = spec.cfg.comp.get(1).cloned().unwrap_or(3) as usize;
    let nfields = spec.cfg.comp.get(2).cloned().unwrap_or(64) as usize;
    let nthreads = spec.programs.len().max(1);
    mmtk::util::test_private::initialize_side_metadata::<crate::vm::SimVM>();
    let sm = SideMetadataSpec {
        name: "verif-comp",
        is_global: true,
        offset: 0,
        log_num_of_bits: log_bits,
        log_bytes_in_region: log_region,
    };
    let bytes = ((nfields + 64) << log_region).max(1 << 22);
    if let Err(e) = export::map_side_metadata(sm, addr(DATA_BASE), bytes) {
        harness_error(format!("cannot map side metadata: {:?}", e));
    }
    let f: Arc<dyn Field> = Arc::new(SideFields { spec: sm });
    let _ = nthreads;
    run_fields("C20", &spec, f, nfields);
    world::finish_ok()
}

// ============================================================================================ C23

struct HeaderFields {
    buf: usize,
    /// byte offset of the "object header address" inside the buffer
    origin: usize,
    fields: Vec<(isize, usize)>,
}

impl HeaderFields {
    fn spec(&self, i: usize) -> HeaderMetadataSpec {
        HeaderMetadataSpec { bit_offset: self.fields[i].0, num_of_bits: self.fields[i].1 }
    }
    fn h(&self) -> Address {
        addr(self.buf + self.origin)
    }
}

impl Field for HeaderFields {
    fn bits(&self) -> u32 {
        unreachable!()
    }
    fn load(&self, i: usize) -> u64 {
        with_ty!(self.fields[i].1 as u32, T, { uc(self.spec(i).load_atomic::<T>(self.h(), None, Ordering::SeqCst)) })
    }
    fn store(&self, i: usize, v: u64) {
        with_ty!(self.fields[i].1 as u32, T, { self.spec(i).store_atomic::<T>(self.h(), cv(v), None, Ordering::SeqCst) })
    }
    fn fetch_add(&self, i: usize, v: u64) -> u64 {
        with_ty!(self.fields[i].1 as u32, T, { uc(self.spec(i).fetch_add::<T>(self.h(), cv(v), Ordering::SeqCst)) })
    }
    fn fetch_sub(&self, i: usize, v: u64) -> u64 {
        with_ty!(self.fields[i].1 as u32, T, { uc(self.spec(i).fetch_sub::<T>(self.h(), cv(v), Ordering::SeqCst)) })
    }
    fn fetch_and(&self, i: usize, v: u64) -> u64 {
        with_ty!(self.fields[i].1 as u32, T, { uc(self.spec(i).fetch_and::<T>(self.h(), cv(v), Ordering::SeqCst)) })
    }
    fn fetch_or(&self, i: usize, v: u64) -> u64 {
        with_ty!(self.fields[i].1 as u32, T, { uc(self.spec(i).fetch_or::<T>(self.h(), cv(v), Ordering::SeqCst)) })
    }
    fn cas(&self, i: usize, old: u64, new: u64) -> Result<u64, u64> {
        with_ty!(self.fields[i].1 as u32, T, {
            self.spec(i)
                .compare_exchange::<T>(self.h(), cv(old), cv(new), None, Ordering::SeqCst, Ordering::SeqCst)
                .map(uc)
                .map_err(uc)
        })
    }
    fn fetch_update(&self, i: usize, new: Option<u64>) -> Result<u64, u64> {
        with_ty!(self.fields[i].1 as u32, T, {
            self.spec(i)
                .fetch_update::<T, _>(self.h(), Ordering::SeqCst, Ordering::SeqCst, |_| new.map(cv::<T>))
                .map(uc)
                .map_err(uc)
        })
    }
    fn describe(&self, i: usize) -> String {
        format!("header field #{} (bit offset {}, {} bits)", i, self.fields[i].0, self.fields[i].1)
    }
    fn store_masked(&self, i: usize, v: u64, mask: u64) -> bool {
        if self.fields[i].1 < 8 {
            return false;
        }
        with_ty!(self.fields[i].1 as u32, T, { self.spec(i).store_atomic::<T>(self.h(), cv(v), Some(cv(mask)), Ordering::SeqCst) });
        true
    }
    fn load_masked(&self, i: usize, mask: u64) -> Option<u64> {
        if self.fields[i].1 < 8 {
            return None;
        }
        Some(with_ty!(self.fields[i].1 as u32, T, { uc(self.spec(i).load_atomic::<T>(self.h(), Some(cv(mask)), Ordering::SeqCst)) }))
    }
}

/// Per-field width wrapper so that `run_fields` can mask operands per field.
struct OneWidth {
    inner: Arc<HeaderFields>,
    width: u32,
    map: Vec<usize>,
}
impl Field for OneWidth {
    fn bits(&self) -> u32 {
        self.width
    }
    fn load(&self, i: usize) -> u64 {
        self.inner.load(self.map[i])
    }
    fn store(&self, i: usize, v: u64) {
        self.inner.store(self.map[i], v)
    }
    fn fetch_add(&self, i: usize, v: u64) -> u64 {
        self.inner.fetch_add(self.map[i], v)
    }
    fn fetch_sub(&self, i: usize, v: u64) -> u64 {
        self.inner.fetch_sub(self.map[i], v)
    }
    fn fetch_and(&self, i: usize, v: u64) -> u64 {
        self.inner.fetch_and(self.map[i], v)
    }
    fn fetch_or(&self, i: usize, v: u64) -> u64 {
        self.inner.fetch_or(self.map[i], v)
    }
    fn cas(&self, i: usize, old: u64, new: u64) -> Result<u64, u64> {
        self.inner.cas(self.map[i], old, new)
    }
    fn fetch_update(&self, i: usize, new: Option<u64>) -> Result<u64, u64> {
        self.inner.fetch_update(self.map[i], new)
    }
    fn describe(&self, i: usize) -> String {
        self.inner.describe(self.map[i])
    }
    fn store_masked(&self, i: usize, v: u64, mask: u64) -> bool {
        self.inner.store_masked(self.map[i], v, mask)
    }
    fn load_masked(&self, i: usize, mask: u64) -> Option<u64> {
        self.inner.load_masked(self.map[i], mask)
    }
}

/// cfg.comp = [origin byte, nfields, (bit_offset + 4096, bits)*, filler seed].  Thread t works on
/// the fields of width class t % (number of width classes present), all threads of one class
/// sharing the fields of that class round-robin; so neighbours in one byte belong to different
/// threads.
fn header(spec: RunSpec) -> ! {
    let c = &spec.cfg.comp;
    let origin = c[0] as usize;
    let nf = c[1] as usize;
    let mut fields = Vec::new();
    for i in 0..nf {
        fields.push((c[2 + 2 * i] as isize - 4096, c[3 + 2 * i] as usize));
    }
    let filler = c.get(2 + 2 * nf).cloned().unwrap_or(0);
    const LEN: usize = 256;
    let buf: &'static mut [u64; LEN / 8] = Box::leak(Box::new([0u64; LEN / 8]));
    let bytes: &mut [u8] = unsafe { std::slice::from_raw_parts_mut(buf.as_mut_ptr() as *mut u8, LEN) };
    let mut x = filler | 1;
    for b in bytes.iter_mut() {
        x ^= x << 13;
        x ^= x >> 7;
        x ^= x << 17;
        *b = x as u8;
    }
    let before: Vec<u8> = bytes.to_vec();
    let base = bytes.as_ptr() as usize;
    let hf = Arc::new(HeaderFields { buf: base, origin, fields: fields.clone() });
    // all fields start at zero (so that the model's initial value holds)
    for i in 0..nf {
        hf.store(i, 0);
    }
    // the widths present
    let mut widths: Vec<usize> = fields.iter().map(|f| f.1).collect();
    widths.sort();
    widths.dedup();
    let n = spec.programs.len();
    // one run_fields group per width would need separate thread sets; instead give every thread a
    // single width class and let it own fields i with (index within class) % (threads of class) == rank
    let nthreads = n.max(1);
    let mut handles = Vec::new();
    for (wi, wdt) in widths.iter().enumerate() {
        let map: Vec<usize> = (0..nf).filter(|i| fields[*i].1 == *wdt).collect();
        // every width class gets at least two simulated threads (programs may be reused by a
        // second class: they are only operation lists), so that shared and masked fields really
        // are accessed concurrently
        let mut threads: Vec<usize> = (0..nthreads).filter(|t| t % widths.len() == wi).collect();
        let mut extra = wi + 1;
        while threads.len() < 2.min(nthreads) {
            let t = extra % nthreads;
            if !threads.contains(&t) {
                threads.push(t);
            }
            extra += 1;
        }
        handles.push((map, threads, *wdt));
    }
    // Build one combined program set per class and run them all concurrently.
    let done_target = n;
    let finals: Arc<Mutex<Vec<(usize, u64)>>> = Arc::new(Mutex::new(Vec::new()));
    let mut shared_groups: Vec<(Arc<dyn Field>, Arc<Shared>)> = Vec::new();
    for (map, threads, wdt) in handles.iter() {
        if threads.is_empty() {
            continue;
        }
        let f: Arc<dyn Field> = Arc::new(OneWidth { inner: hf.clone(), width: *wdt as u32, map: map.clone() });
        let sub = RunSpec {
            programs: threads.iter().map(|t| spec.programs[*t].clone()).collect(),
            ..spec.clone()
        };
        let k = threads.len();
        let nfields = map.len();
        let sh_fields: Vec<usize> = if nfields >= 3 { vec![nfields - 1] } else { vec![] };
        // for widths of 8 bits or more with enough fields: one field is written with a mask
        let masked = if *wdt >= 8 && nfields >= 2 {
            let mi = if nfields >= 3 { nfields - 2 } else { nfields - 1 };
            let mask = (0x5a5a_5a5a_5a5a_5a5au64 ^ filler) & width_mask(*wdt as u32) | 1;
            let v0 = mask & mask.wrapping_neg();
            f.store_masked(mi, v0, mask);
            Some((mi, mask, v0))
        } else {
            None
        };
        let hist: BTreeSet<u64> = masked.iter().map(|m| m.2).collect();
        let shared = Arc::new(Shared {
            sums: sh_fields.iter().map(|_| std::sync::atomic::AtomicU64::new(0)).collect(),
            fields: sh_fields,
            masked: masked.map(|m| (m.0, m.1)),
            masked_hist: Mutex::new(hist),
        });
        shared_groups.push((f.clone(), shared.clone()));
        spawn_field_threads("C23", &sub, f, nfields, k, finals.clone(), map.clone(), shared);
    }
    let classes_with_threads: usize = handles.iter().filter(|h| !h.1.is_empty()).map(|h| h.1.len()).sum();
    let _ = done_target;
    simrt::block_until("all header threads finished", move || DONE.load(Ordering::SeqCst) == classes_with_threads);
    for (f, sh) in shared_groups.iter() {
        check_shared("C23", f, sh);
    }
    // final values and isolation of everything else
    let g = finals.lock().unwrap();
    let mut covered = vec![false; LEN * 8];
    for (i, (off, bits)) in fields.iter().enumerate() {
        let start = (origin as isize * 8 + off) as usize;
        for b in start..start + bits {
            covered[b] = true;
        }
        let _ = i;
    }
    for (i, want) in g.iter() {
        let got = hf.load(*i);
        if got != *want {
            violation("C23", "final-value-wrong", format!("the {} finally holds {:#x}, its writer left {:#x}", hf.describe(*i), got, want));
        }
    }
    let after: &[u8] = unsafe { std::slice::from_raw_parts(base as *const u8, LEN) };
    for bit in 0..LEN * 8 {
        if covered[bit] {
            continue;
        }
        let (by, bi) = (bit / 8, bit % 8);
        if (after[by] >> bi) & 1 != (before[by] >> bi) & 1 {
            violation(
                "C23",
                "bits-outside-field-changed",
                format!("header byte {} bit {} (outside every field) changed from {:#04x} to {:#04x}", by as isize - origin as isize, bi, before[by], after[by]),
            );
        }
    }
    with_world(|w| w.count_n("fields_checked", g.len() as u64));
    world::finish_ok()
}

/// Fields listed in `shared` have no owner: every thread may `fetch_add` / `fetch_sub` them (ops 11,
/// 12); their final value must be the sum of all operands (no lost update).
struct Shared {
    fields: Vec<usize>,
    sums: Vec<std::sync::atomic::AtomicU64>,
    /// (field, mask): thread 0 of the group stores masked values (ops 13), every thread may read
    /// them with the same mask (op 14) and must see one of the values ever stored, never a mix
    /// and never the bits half-written.
    masked: Option<(usize, u64)>,
    masked_hist: Mutex<BTreeSet<u64>>,
}

fn check_shared(prop: &'static str, f: &Arc<dyn Field>, sh: &Shared) {
    let mask = width_mask(f.bits());
    for (k, i) in sh.fields.iter().enumerate() {
        let want = sh.sums[k].load(Ordering::SeqCst) & mask;
        let got = f.load(*i);
        if got != want {
            violation(
                prop,
                "lost-update",
                format!("the {} was only ever changed by fetch_add / fetch_sub from several threads; the operands sum to {:#x} but it holds {:#x}", f.describe(*i), want, got),
            );
        }
    }
}

fn spawn_field_threads(prop: &'static str, spec: &RunSpec, f: Arc<dyn Field>, nfields: usize, nthreads: usize, finals: Arc<Mutex<Vec<(usize, u64)>>>, map: Vec<usize>, shared: Arc<Shared>) {
    for (t, p) in spec.programs.iter().enumerate() {
        let ops = comp_ops(p);
        let f = f.clone();
        let finals = finals.clone();
        let map = map.clone();
        let shared = shared.clone();
        simrt::spawn(&format!("accessor{}w{}", t, f.bits()), move || {
            let mine: Vec<usize> = (0..nfields)
                .filter(|i| i % nthreads == t && !shared.fields.contains(i) && shared.masked.map_or(true, |m| m.0 != *i))
                .collect();
            let mut model: BTreeMap<usize, u64> = BTreeMap::new();
            let mask = width_mask(f.bits());
            for (k, a, b, _c) in ops {
                if mine.is_empty() && !(11..=14).contains(&k) {
                    continue;
                }
                op_boundary();
                if k == 13 || k == 14 {
                    if let Some((fi, mask)) = shared.masked {
                        if k == 13 && t == 0 {
                            // every stored value has the lowest masked bit set: zero is never stored
                            let v = (b & mask) | (mask & mask.wrapping_neg());
                            shared.masked_hist.lock().unwrap().insert(v);
                            f.store_masked(fi, v, mask);
                            with_world(|w| w.count("masked_stores"));
                        } else if let Some(g) = f.load_masked(fi, mask) {
                            if !shared.masked_hist.lock().unwrap().contains(&g) {
                                violation(
                                    prop,
                                    "torn-masked-store",
                                    format!("masked load (mask {:#x}) of the {} returned {:#x}, which was never stored there", mask, f.describe(fi), g),
                                );
                            }
                            with_world(|w| w.count("masked_loads"));
                        }
                    }
                    continue;
                }
                if k == 11 || k == 12 {
                    if !shared.fields.is_empty() {
                        let pos = a as usize % shared.fields.len();
                        let v = b & mask;
                        if k == 11 {
                            f.fetch_add(shared.fields[pos], v);
                            shared.sums[pos].fetch_add(v, Ordering::SeqCst);
                        } else {
                            f.fetch_sub(shared.fields[pos], v);
                            shared.sums[pos].fetch_sub(v, Ordering::SeqCst);
                        }
                        with_world(|w| w.count("shared_field_ops"));
                    }
                    continue;
                }
                let i = mine[a as usize % mine.len()];
                let cur = *model.get(&i).unwrap_or(&0);
                let v = b & mask;
                let bad = |what: &str, got: u64, want: u64| -> ! {
                    violation(
                        prop,
                        "wrong-previous-value",
                        format!("{} on the {} returned {:#x}, but the field's only writer last left {:#x} there", what, f.describe(i), got, want),
                    )
                };
                match k {
                    1 => {
                        let g = f.load(i);
                        if g != cur {
                            bad("load", g, cur);
                        }
                    }
                    2 => {
                        f.store(i, v);
                        model.insert(i, v);
                    }
                    3 => {
                        let g = f.fetch_add(i, v);
                        if g != cur {
                            bad("fetch_add", g, cur);
                        }
                        model.insert(i, cur.wrapping_add(v) & mask);
                    }
                    4 => {
                        let g = f.fetch_sub(i, v);
                        if g != cur {
                            bad("fetch_sub", g, cur);
                        }
                        model.insert(i, cur.wrapping_sub(v) & mask);
                    }
                    5 => {
                        let g = f.fetch_and(i, v);
                        if g != cur {
                            bad("fetch_and", g, cur);
                        }
                        model.insert(i, cur & v);
                    }
                    6 => {
                        let g = f.fetch_or(i, v);
                        if g != cur {
                            bad("fetch_or", g, cur);
                        }
                        model.insert(i, cur | v);
                    }
                    7 => match f.cas(i, cur, v) {
                        Ok(g) => {
                            if g != cur {
                                bad("compare_exchange (success)", g, cur);
                            }
                            model.insert(i, v);
                        }
                        Err(g) => {
                            // The header CAS on a sub-byte field compares the whole byte it read
                            // a moment earlier; a neighbour changing its own bits in between makes
                            // it fail although this field matched.  That is within what a
                            // compare-exchange may do only if the reported value is the field's.
                            if g != cur {
                                bad("compare_exchange (failure)", g, cur);
                            }
                            with_world(|w| w.count("cas_failed_by_neighbour"));
                        }
                    },
                    8 => {
                        let wrong = (cur ^ 1) & mask;
                        if wrong != cur {
                            match f.cas(i, wrong, v) {
                                Ok(g) => violation(
                                    prop,
                                    "cas-succeeded-wrongly",
                                    format!("compare_exchange expecting {:#x} on the {} succeeded (returned {:#x}) although it holds {:#x}", wrong, f.describe(i), g, cur),
                                ),
                                Err(g) => {
                                    if g != cur {
                                        bad("compare_exchange (failure)", g, cur);
                                    }
                                }
                            }
                        }
                    }
                    9 => match f.fetch_update(i, Some(v)) {
                        Ok(g) => {
                            if g != cur {
                                bad("fetch_update", g, cur);
                            }
                            model.insert(i, v);
                        }
                        Err(g) => bad("fetch_update (unexpected failure)", g, cur),
                    },
                    10 => match f.fetch_update(i, None) {
                        Err(g) => {
                            if g != cur {
                                bad("fetch_update (None)", g, cur);
                            }
                        }
                        Ok(g) => bad("fetch_update (None) succeeded", g, cur),
                    },
                    _ => {}
                }
                with_world(|w| w.count("field_ops"));
            }
            let mut g = finals.lock().unwrap();
            for i in mine {
                g.push((map[i], *model.get(&i).unwrap_or(&0)));
            }
            drop(g);
            DONE.fetch_add(1, Ordering::SeqCst);
        });
    }
}

// ============================================================================================ C30

/// The window straddles a slab boundary of the two-level chunk-state storage (2^35 bytes).
const MMAP_MID: usize = 0x5000_0000_0000;
const CHUNK: usize = 1 << 22;
const WINDOW: usize = 16;

const MMAP_BASE: usize = MMAP_MID - (WINDOW / 2) * CHUNK;

fn observe(m: &VerifMmapper, seen: &Mutex<Vec<u8>>, lo: usize, hi: usize, at_least: u8, what: &str) {
let base = MMAP_BASE;
    let mut s = seen.lock().unwrap();
    for c in lo..hi {
        let st = m.chunk_state(addr(base + c * CHUNK));
        if st < s[c] {
            violation(
                "C30",
                "state-went-back",
                format!("chunk {} ({:#x}) is in state {} after having been in state {} ({})", c, base + c * CHUNK, st, s[c], what),
            );
        }
        if st < at_least {
            violation(
                "C30",
                "state-not-reached",
                format!("{} succeeded but chunk {} ({:#x}) is in state {} (expected at least {})", what, c, base + c * CHUNK, st, at_least),
            );
        }
        s[c] = st;
        let mapped = m.is_mapped_address(addr(base + c * CHUNK + 4096));
        if mapped != (st == 2) {
            violation("C30", "is-mapped-disagrees", format!("chunk {} is in state {} but is_mapped_address says {}", c, st, mapped));
        }
    }
}

/// ops: 1 quarantine (thread 0 only, and only where the model has no quarantined chunk -- the
/// mmapper panics by contract otherwise), 2 ensure_mapped; a = first chunk of the window,
/// b = number of pages, c = page offset inside the first chunk.
fn mmapper(spec: RunSpec) -> ! {
    let m = Arc::new(VerifMmapper::new());
    let base = MMAP_BASE;
    // highest state ever observed per chunk: states must never go back
    let seen: Arc<Mutex<Vec<u8>>> = Arc::new(Mutex::new(vec![0u8; WINDOW]));
    let n = spec.programs.len();
    for (t, p) in spec.programs.iter().enumerate() {
        let ops = comp_ops(p);
        let m = m.clone();
        let seen = seen.clone();
        simrt::spawn(&format!("mapper{}", t), move || {
            for (k, a, b, c) in ops {
                op_boundary();
                let first = a as usize % WINDOW;
                let off = (c as usize % 1024) * 4096;
                let max_pages = ((WINDOW - first) * CHUNK - off) / 4096;
                let pages = (b as usize).clamp(1, max_pages);
                let start = base + first * CHUNK + off;
                let last = (start + pages * 4096 - 1 - base) / CHUNK;
                match k {
                    1 if t == 0 => {
                        let any_q = {
                            let s = seen.lock().unwrap();
                            (first..=last).any(|c| s[c] == 1)
                        };
                        // also look at the live states: another thread cannot create a
                        // quarantined chunk (only thread 0 quarantines), so this check is stable
                        let live_q = (first..=last).any(|c| m.chunk_state(addr(base + c * CHUNK)) == 1);
                        if any_q || live_q {
                            continue;
                        }
                        match m.quarantine(addr(start), pages) {
                            Ok(()) => {
                                observe(&m, &seen, first, last + 1, 1, "quarantine_address_range");
                                with_world(|w| w.count("c30_quarantine_ok"));
                            }
                            Err(_) => {
                                observe(&m, &seen, first, last + 1, 0, "failed quarantine_address_range");
                                with_world(|w| w.count("c30_quarantine_failed"));
                            }
                        }
                    }
                    2 => match m.ensure_mapped(addr(start), pages) {
                        Ok(()) => {
                            observe(&m, &seen, first, last + 1, 2, "ensure_mapped");
                            // mapped memory is usable
                            unsafe {
                                let p = start as *mut u8;
                                let old = p.read_volatile();
                                p.write_volatile(old.wrapping_add(1));
                                let q = (start + pages * 4096 - 1) as *mut u8;
                                q.write_volatile(q.read_volatile().wrapping_add(1));
                            }
                            with_world(|w| w.count("c30_ensure_ok"));
                        }
                        Err(_) => {
                            observe(&m, &seen, first, last + 1, 0, "failed ensure_mapped");
                            with_world(|w| w.count("c30_ensure_failed"));
                        }
                    },
                    _ => {}
                }
            }
            DONE.fetch_add(1, Ordering::SeqCst);
        });
    }
    join_all(n);
    observe(&m, &seen, 0, WINDOW, 0, "end of run");
    // every Mapped chunk is readable and writable
    let s = seen.lock().unwrap();
    for c in 0..WINDOW {
        if s[c] == 2 {
            unsafe {
                let p = (base + c * CHUNK + CHUNK / 2) as *mut u8;
                p.write_volatile(p.read_volatile().wrapping_add(1));
            }
        }
    }
    with_world(|w| w.count_n("c30_chunks_mapped", s.iter().filter(|x| **x == 2).count() as u64));
    drop(s);
    world::finish_ok()
}
