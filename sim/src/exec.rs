//! Boot, mutator interpreter, end-of-run checks.

use crate::obj::{self, Hdr};
use crate::simrt;
use crate::spec::*;
use crate::vm::*;
use crate::world::{self, violation, with_world, PlanInfo, SObj, World};
use mmtk::util::alloc::AllocationOptions;
use mmtk::util::heap::vm_layout::VMLayout;
use mmtk::util::verif::introspect;
use mmtk::util::verif::rt::site;
use mmtk::util::{Address, ObjectReference};
use mmtk::{memory_manager as mm, MMTKBuilder, Mutator};
use std::collections::{BTreeMap, BTreeSet, VecDeque};
use std::sync::atomic::{AtomicUsize, Ordering};

static MUT_DONE: AtomicUsize = AtomicUsize::new(0);
static FINAL_DONE: AtomicUsize = AtomicUsize::new(0);
static MUT_EXITED: AtomicUsize = AtomicUsize::new(0);
/// The mutator big lock (write_mode 1).
static BIG_LOCK: mmtk::util::verif::sync::Mutex<()> = mmtk::util::verif::sync::Mutex::new(());

fn panic_hook(info: &std::panic::PanicHookInfo<'_>) {
    let msg = if let Some(s) = info.payload().downcast_ref::<&str>() {
        s.to_string()
    } else if let Some(s) = info.payload().downcast_ref::<String>() {
        s.clone()
    } else {
        "<non-string panic>".to_string()
    };
    let loc = info
        .location()
        .map(|l| format!("{}:{}", l.file(), l.line()))
        .unwrap_or_default();
    let thread = std::thread::current().name().unwrap_or("?").to_string();
    if std::env::var("SIM_BACKTRACE").is_ok() {
        eprintln!("{}", std::backtrace::Backtrace::force_capture());
    }
    // The simulator's own sources are compiled with crate-relative paths ("src/exec.rs");
    // mmtk-core is a path dependency and reports absolute paths, wherever its tree lives.  Panics
    // raised inside std or a dependency on behalf of mmtk-core carry the caller's location.
    let in_harness = loc.starts_with("src/") || loc.contains("/verif/sim/");
    let in_mmtk = !in_harness;
    let head: String = msg.chars().take(300).collect();
    if in_mmtk {
        // class names are independent of where the mmtk-core tree lives
        let rel = match loc.rfind("/src/") {
            Some(i) => &loc[i + 1..],
            None => &loc[..],
        };
        violation(
            "",
            &format!("panic:{}", rel),
            format!("thread {} panicked at {}: {}", thread, loc, head),
        );
    } else {
        world::harness_error(format!("harness panic in thread {} at {}: {}", thread, loc, head));
    }
}

pub fn plan_selector_ok(name: &str) -> bool {
    matches!(
        name,
        "NoGC"
            | "SemiSpace"
            | "GenCopy"
            | "GenImmix"
            | "MarkSweep"
            | "PageProtect"
            | "Immix"
            | "MarkCompact"
            | "Compressor"
            | "StickyImmix"
            | "ConcurrentImmix"
    )
}

fn setopt(b: &mut MMTKBuilder, k: &str, v: &str) {
    if !b.set_option(k, v) {
        world::harness_error(format!("option {}={} rejected", k, v));
    }
}

pub fn new_world(spec: &RunSpec, plan: PlanInfo, nmut: usize) -> World {
    World {
        spec: spec.clone(),
        plan,
        nmut,
        objs: BTreeMap::new(),
        lroots: vec![[0u64; NROOTS]; MAX_MUT],
        groots: [0u64; NGLOBAL],
        next_id: 1,
        occupied: BTreeMap::new(),
        pause: Default::default(),
        pauses_done: 0,
        reclaiming_pauses: 0,
        counters: BTreeMap::new(),
        refs: BTreeMap::new(),
        fin_registered: BTreeMap::new(),
        fin_popped: BTreeMap::new(),
        fin_ready: BTreeMap::new(),
        fin_unreachable_seen: BTreeSet::new(),
        probe_requested: false,
        block_counts: [0; MAX_MUT],
        fork_epoch: 0,
        alloc_slow_iters: BTreeMap::new(),
        acquire_fails: BTreeMap::new(),
        used_after_gc: Vec::new(),
        ephemerons: Vec::new(),
        satb_keep: BTreeSet::new(),
        satb_active: false,
        satb_new: BTreeSet::new(),
        immortal_dead: BTreeSet::new(),
        oom_events: Vec::new(),
        cleared_ever: BTreeSet::new(),
        hist: Default::default(),
        blocked_for_gc: [false; MAX_MUT],
        gc_requests: BTreeMap::new(),
        recent: VecDeque::new(),
        injected_pending: BTreeMap::new(),
        injected_next: 0,
        workers_exited: Vec::new(),
        workers_spawned: Vec::new(),
        sched: Default::default(),
        last_gc_info: Default::default(),
        alloc_count: 0,
        alloc_bytes: 0,
        end_phase: false,
    }
}

pub fn run(spec: RunSpec) -> ! {
    std::panic::set_hook(Box::new(panic_hook));
    if spec.variant != variant_name() {
        eprintln!(
            "spec is for variant {} but this binary is variant {}",
            spec.variant,
            variant_name()
        );
        unsafe { libc::_exit(2) };
    }
    let nmut = spec.programs.len().clamp(1, MAX_MUT);
    simrt::init(spec.sched.clone(), &world::OBS);
    if spec.cfg.plan == "comp" {
        crate::comp::run(spec);
    }

    // ---- build MMTk
    let cfg = spec.cfg.clone();
    let mut b = MMTKBuilder::new_no_env_vars();
    setopt(&mut b, "plan", &cfg.plan);
    setopt(&mut b, "threads", &cfg.workers.to_string());
    match cfg.dynamic_heap {
        Some((min, max)) => setopt(&mut b, "gc_trigger", &format!("DynamicHeapSize:{},{}", min, max)),
        None => setopt(&mut b, "gc_trigger", &format!("FixedHeapSize:{}", cfg.heap_bytes)),
    }
    if let Some((min, max)) = cfg.nursery {
        setopt(&mut b, "nursery", &format!("Bounded:{},{}", min, max));
    }
    if let Some(sf) = cfg.stress_factor {
        setopt(&mut b, "stress_factor", &sf.to_string());
        setopt(&mut b, "precise_stress", "true");
    }
    setopt(&mut b, "no_finalizer", &cfg.no_finalizer.to_string());
    setopt(&mut b, "no_reference_types", &cfg.no_reference_types.to_string());
    setopt(&mut b, "full_heap_system_gc", &cfg.full_heap_system_gc.to_string());
    setopt(&mut b, "immix_always_defrag", &cfg.immix_always_defrag.to_string());
    setopt(&mut b, "immix_defrag_every_block", &cfg.immix_defrag_every_block.to_string());
    if let Some(p) = cfg.defrag_headroom_percent {
        setopt(&mut b, "immix_defrag_headroom_percent", &p.to_string());
    }
    setopt(&mut b, "count_live_bytes_in_gc", &cfg.count_live_bytes.to_string());
    setopt(
        &mut b,
        "concurrent_immix_disable_concurrent_marking",
        &cfg.disable_concurrent_marking.to_string(),
    );
    setopt(&mut b, "side_metadata_base_address", &format!("{}", cfg.meta_base));
    if cfg.layout32 {
        b.set_vm_layout(VMLayout {
            log_address_space: 35,
            heap_start: unsafe { Address::from_usize(0x4000_0000) },
            heap_end: unsafe {
                Address::from_usize(if cfg.layout32_chunks > 0 { 0x4000_0000 + (cfg.layout32_chunks << 22) } else { 0x2_0000_0000 })
            },
            log_space_extent: 31,
            force_use_contiguous_spaces: false,
        });
    }
    let mmtk_box = mm::mmtk_init::<SimVM>(&b);
    let mmtk: &'static mmtk::MMTK<SimVM> = Box::leak(mmtk_box);
    let _ = MMTK_INSTANCE.set(mmtk);

    // ---- plan facts
    let c = mmtk.get_plan().constraints();
    let mut sem_ok = [false; 8];
    for s in [0u8, 1, 2, 3, 4, 5, 6] {
        sem_ok[s as usize] = !matches!(
            mm::get_allocator_mapping(mmtk, sem_of(s)),
            mmtk::util::alloc::AllocatorSelector::None
        );
    }
    let plan = PlanInfo {
        name: cfg.plan.clone(),
        moves: c.moves_objects,
        generational: c.generational,
        collects: c.collects_garbage,
        concurrent: cfg.plan == "ConcurrentImmix",
        needs_forward: c.needs_forward_after_liveness,
        max_non_los: c.max_non_los_default_alloc_bytes,
        barrier_satb: matches!(c.barrier, mmtk::BarrierSelector::SATBBarrier),
        barrier_object: matches!(c.barrier, mmtk::BarrierSelector::ObjectBarrier),
        sem_ok,
        root_rounds: if matches!(cfg.plan.as_str(), "MarkCompact" | "Compressor") { 2 } else { 1 },
        pins: matches!(
            cfg.plan.as_str(),
            "Immix" | "StickyImmix" | "ConcurrentImmix" | "MarkSweep" | "PageProtect"
        ),
    };
    let w = new_world(&spec, plan, nmut);
    world::install_world(w);
    with_world(|w| w.sched.workers = cfg.workers);

    // ---- bind all mutators from the main thread, before any other thread exists
    for mid in 0..nmut {
        let m = mm::bind_mutator(mmtk, mutator_tls(mid));
        MUTATORS[mid].store(Box::into_raw(m), Ordering::SeqCst);
        MUT_ACTIVE[mid].store(true, Ordering::SeqCst);
    }
    mm::initialize_collection(mmtk, tls_of(TLS_MAIN));

    // ---- mutator threads
    let mut tids = Vec::new();
    for mid in 0..nmut {
        let prog = spec.programs[mid].clone();
        let tid = simrt::spawn(&format!("mutator{}", mid), move || mutator_main(mid, prog));
        tids.push(tid);
    }
    let _ = tids;
    // NB: predicates run inside the scheduler; they may only read atomics.
    simrt::block_until("all mutators finished", move || {
        FINAL_DONE.load(Ordering::SeqCst) == 1 && MUT_EXITED.load(Ordering::SeqCst) == nmut
    });
    world::finish_ok();
}

fn mutator_main(mid: usize, prog: Vec<Op>) {
    for (i, op) in prog.iter().enumerate() {
        safepoint(mid);
        with_world(|w| w.note(format!("m{} op{} {:?}", mid, i, op)));
        exec_op(mid, op);
    }
    // Program finished: stay parked (like a thread blocked in native code) so that other
    // mutators' collections can proceed; our roots stay live.
    MUT_PARKED[mid].store(true, Ordering::SeqCst);
    let nmut = with_world(|w| w.nmut);
    MUT_DONE.fetch_add(1, Ordering::SeqCst);
    if mid == 0 {
        simrt::block_until("all mutator programs done", move || {
            MUT_DONE.load(Ordering::SeqCst) == nmut && !STOP_REQUESTED.load(Ordering::SeqCst)
        });
        MUT_PARKED[0].store(false, Ordering::SeqCst);
        final_phase();
        MUT_PARKED[0].store(true, Ordering::SeqCst);
        FINAL_DONE.store(1, Ordering::SeqCst);
    }
    MUT_EXITED.fetch_add(1, Ordering::SeqCst);
}

fn final_phase() {
    let (n, collects) = with_world(|w| {
        w.end_phase = true;
        (w.spec.cfg.final_gcs, w.plan.collects)
    });
    if collects {
        for _ in 0..n {
            safepoint(0);
            exec_op(
                0,
                &Op::Gc {
                    force: true,
                    exhaustive: true,
                },
            );
        }
    }
    // End-of-run checks with the world quiescent (all other mutators are parked for good).
    with_world(|w| {
        // C15: every injected packet ran exactly once
        for (seq, n) in w.injected_pending.iter() {
            if *n != 1 {
                violation(
                    "C15",
                    "injected-packet-lost",
                    format!("injected packet {} executed {} times by the end of the run", seq, n),
                );
            }
        }
    });
    crate::probes::end_of_run();
}

pub fn watchdog(_step: u64) {}

pub fn on_step_cap(detail: String) -> ! {
    // A run that exhausts its step budget while a GC request is pending is a liveness violation
    // only if faults have stopped; otherwise it is a harness problem (budget too small).
    let pending = with_world(|w| (w.gc_requests.clone(), w.pause.active, w.spec.sched.fair_after_step));
    let (reqs, active, fair_after) = pending;
    // (only a request that has been pending for a long stretch of the budget, all of it after the
    // faults stopped, counts: a run may simply reach its step budget in the middle of a healthy GC)
    let now = simrt::step();
    let oldest = reqs.values().map(|r| r.0).min().unwrap_or(now);
    let stuck = now.saturating_sub(oldest.max(fair_after)) > 2_000_000;
    if (!reqs.is_empty() || active) && fair_after != u64::MAX && stuck {
        violation(
            "C14",
            "gc-not-completed",
            format!("step budget exhausted with GC requests pending {:?} (pause active {}): {}", reqs, active, detail),
        );
    }
    // A long but healthy run (many completed collections, every oracle evaluated at each of them)
    // that simply outlives its step budget is cut short, not an error.
    let pauses = with_world(|w| w.pauses_done);
    if pauses >= 30 {
        with_world(|w| w.count("truncated_by_step_cap"));
        world::finish_ok();
    }
    world::harness_error(format!("step cap: {}", detail));
}

// ---------------------------------------------------------------------------------------------
// Ops
// ---------------------------------------------------------------------------------------------

fn legal_size(w: &World, size: usize, nrefs: usize, sem: u8) -> (usize, u8) {
    let mut size = (size.max(obj::HEADER_BYTES + 8 * nrefs) + 7) & !7;
    let mut sem = sem;
    if !w.plan.sem_ok[sem as usize] {
        sem = SEM_DEFAULT;
    }
    if sem == SEM_NONMOVING || sem == SEM_IMMORTAL {
        // non-LOS spaces: keep within the smallest block/cell limits of any policy
        let cap = w.plan.max_non_los.min(2048);
        if size > cap {
            size = cap.max(obj::HEADER_BYTES + 8 * nrefs);
        }
    }
    // KF-MS-ALIGNED-LIMIT: native mark-sweep cannot serve a request whose size is within
    // MAX_ALIGNMENT - MIN_ALIGNMENT of max_non_los_default_alloc_bytes when align > MIN_ALIGNMENT
    // (the padded size exceeds the largest size class); only probe runs go there.
    let limit = if w.plan.name == "MarkSweep" && !w.spec.cfg.kf_probe { w.plan.max_non_los - 16 } else { w.plan.max_non_los };
    if sem == SEM_DEFAULT && size > limit {
        sem = if w.plan.sem_ok[SEM_LOS as usize] { SEM_LOS } else { sem };
        if sem == SEM_DEFAULT {
            size = limit & !7;
        }
    }
    (size, sem)
}

struct AllocReq {
    size: usize,
    align: usize,
    offset: usize,
    sem: u8,
    nrefs: usize,
    kind: u8,
    opts: Option<AllocationOptions>,
}

/// Returns (id, raw reference) or None if the allocation failed (null).
fn do_alloc(mid: usize, req: AllocReq) -> Option<(u64, usize)> {
    let m = mutator_ref(mid);
    let (size, sem) = with_world(|w| legal_size(w, req.size, req.nrefs, req.sem));
    // NoGC cannot collect: a blocking allocation on a full heap reaches
    // `unreachable!("GC triggered in nogc")` by design, so such a program is illegal.
    let skip = with_world(|w| {
        !w.plan.collects
            // (every mutator allocation polls -- whatever its options -- and a poll on a full heap
            // triggers a GC)
            && size < w.spec.cfg.heap_bytes
            && (w.alloc_bytes as usize + size + (64 << 10)) * 3 > w.spec.cfg.heap_bytes
    });
    if skip {
        with_world(|w| w.count("alloc_skipped_nogc_budget"));
        return None;
    }
    let nrefs = req.nrefs.min((size - obj::HEADER_BYTES) / 8);
    let align = if req.align == 16 { 16 } else { 8 };
    let offset = if req.offset == 8 { 8 } else { 0 };
    let semantics = sem_of(sem);
    let pauses_before = with_world(|w| {
        w.alloc_count += 1;
        w.pauses_done
    });
    let oom_before = with_world(|w| w.oom_events.len());
    let blocks_before = with_world(|w| w.block_counts[mid]);
    let my_tid = simrt::current_tid();
    with_world(|w| {
        w.alloc_slow_iters.insert(my_tid, 0);
        w.acquire_fails.insert(my_tid, (0, 0));
    });
    let addr = match req.opts {
        None => mm::alloc(m, size, align, offset, semantics),
        Some(o) => mm::alloc_with_options(m, size, align, offset, semantics, o),
    };
    crate::probes::after_alloc(mid, &req.opts, addr, size, pauses_before, oom_before, blocks_before);
    {
        // C38: the heap size reported to the binding, sampled after every allocation
        let total = mm::total_bytes(mmtk());
        with_world(|w| crate::probes::check_heap_size(w, total, "after an allocation"));
    }
    if addr.is_zero() {
        with_world(|w| w.count("alloc_returned_null"));
        return None;
    }
    // ---- C03
    let a = addr.as_usize();
    if (a + offset) % align != 0 {
        violation(
            "C03",
            "misaligned",
            format!("alloc(size {}, align {}, offset {}, sem {}) returned {:#x}", size, align, offset, sem, a),
        );
    }
    if !mm::is_mapped_address(addr) || !mm::is_mapped_address(addr.add(size - 1)) {
        violation(
            "C03",
            "unmapped",
            format!("alloc(size {}, sem {}) returned {:#x} which is not fully mapped", size, sem, a),
        );
    }
    let expect_space = introspect::allocator_space_name(m, mmtk(), semantics);
    let got_space = introspect::sft_name(addr);
    if let Some(es) = expect_space {
        if es != got_space || introspect::sft_name(addr.add(size - 1)) != es {
            violation(
                "C03",
                "wrong-space",
                format!("alloc(size {}, sem {}) returned {:#x} in space '{}', expected '{}'", size, sem, a, got_space, es),
            );
        }
    }
    // ---- C07/C08: memory handed out by the allocator holds no valid-object bits
    #[cfg(any(feature = "var_a", feature = "var_b"))]
    for i in (0..size.min(4096)).step_by(8) {
        if let Some(r) = mm::is_mmtk_object(addr.add(i)) {
            violation(
                "C07",
                "stale-vo-bit-in-fresh-memory",
                format!(
                    "alloc(size {}, sem {}) returned {:#x}; is_mmtk_object({:#x}) = {:?} inside the fresh memory (a reclaimed object is still reported as valid)",
                    size, sem, a, a + i, r
                ),
            );
        }
    }
    // ---- C02 + model
    let flags = (if align == 16 { obj::FLAG_ALIGN16 } else { 0 }) | (if offset == 8 { obj::FLAG_OFFSET8 } else { 0 });
    let (id, h) = with_world(|w| {
        let id = w.next_id;
        w.next_id += 1;
        w.alloc_bytes += size as u64;
        w.occupy(a, a + size, id, &format!("alloc(size {}, sem {}) by mutator {}", size, sem, mid));
        let h = Hdr {
            id,
            size: size as u32,
            nrefs: nrefs as u16,
            kind: req.kind,
            flags,
            tomb: 0,
        };
        (id, h)
    });
    for i in (0..size).step_by(8) {
        let v = unsafe { addr.add(i).load::<u64>() };
        if v != 0 {
            violation(
                "C03",
                "not-zeroed",
                format!("alloc(size {}, sem {}) returned {:#x}: word at +{} is {:#x}, not zero", size, sem, a, i, v),
            );
        }
    }
    obj::write_hdr(addr, &h);
    obj::fill_payload(addr, &h);
    let oref = obj::ref_of(addr);
    mm::post_alloc(m, oref, size, semantics);
    let raw = oref.to_raw_address().as_usize();
    with_world(|w| {
        let pause = w.pauses_done;
        w.objs.insert(
            id,
            SObj {
                id,
                size,
                nrefs,
                kind: req.kind,
                flags,
                sem,
                fields: vec![0; nrefs],
                addr: raw,
                pin_ops: 0,
                pins_true: 0,
                unpins_true: 0,
                alloc_pause: pause,
                owner: mid,
                space: got_space,
            },
        );
        if w.satb_active {
            w.satb_keep.insert(id);
            w.satb_new.insert(id);
        }
        *w.counters.entry(format!("alloc_in_{}", got_space)).or_insert(0) += 1;
        w.note(format!("m{} allocated object {} at {:#x} size {} in {}", mid, id, raw, size, got_space));
    });
    Some((id, raw))
}

pub fn do_alloc_simple(mid: usize, size: usize, nrefs: usize, kind: u8) -> Option<(u64, usize)> {
    do_alloc(
        mid,
        AllocReq {
            size,
            align: 8,
            offset: 0,
            sem: SEM_DEFAULT,
            nrefs,
            kind,
            opts: None,
        },
    )
}

/// Pick a writable field of `id` for mutator `mid` at or after `field`.
fn writable_field(w: &World, mid: usize, o: &SObj, field: usize) -> Option<usize> {
    let first = if o.kind != obj::KIND_NORMAL { 1 } else { 0 };
    if o.nrefs <= first {
        return None;
    }
    let n = o.nrefs - first;
    if w.spec.cfg.write_mode == 1 || w.nmut == 1 {
        return Some(first + field % n);
    }
    for k in 0..n {
        let f = first + (field + k) % n;
        if (o.id as usize + f) % w.nmut == mid {
            return Some(f);
        }
    }
    None
}

fn store_field(mid: usize, src_raw: usize, src_id: u64, f: usize, val_raw: usize, val_id: u64, mode: u8) {
    let m = mutator_ref(mid);
    let src = obj::raw_to_ref(src_raw).unwrap();
    let slot = obj::slot_addr(obj::start_of(src), f);
    let target = obj::raw_to_ref(val_raw);
    let satb = with_world(|w| w.plan.barrier_satb);
    let update_model = |w: &mut World| {
        let mut unmoved_holder = false;
        if let Some(o) = w.objs.get_mut(&src_id) {
            if crate::world::watch_id() != 0 && o.fields[f] == crate::world::watch_id() {
                eprintln!("WATCHID field {} of object {} ({:#x}, space {}) overwritten {} -> {} by mutator {} mode {}", f, src_id, o.addr, o.space, o.fields[f], val_id, mid, mode);
            }
            o.fields[f] = val_id;
            unmoved_holder = matches!(o.sem, SEM_IMMORTAL | SEM_NONMOVING);
        }
        if unmoved_holder && val_id != 0 {
            w.count("ref_stored_in_immortal_or_nonmoving");
        }
    };
    if satb || mode == 1 || target.is_none() {
        // pre + store + post.  (The subsuming call cannot store null; SATB's subsuming path is
        // unimplemented in mmtk-core.)
        mm::object_reference_write_pre(m, src, slot, target);
        with_world(|w| {
            unsafe { slot.store::<usize>(val_raw) };
            update_model(w);
        });
        if !satb {
            mm::object_reference_write_post(m, src, slot, target);
        }
    } else {
        // Subsuming barrier: the store happens inside mmtk-core.  The field has a single writer
        // (or the big lock is held), so updating the model first is not observable.
        with_world(update_model);
        mm::object_reference_write(m, src, slot, target.unwrap());
    }
}

pub fn exec_op(mid: usize, op: &Op) {
    match op {
        Op::Alloc {
            size,
            align,
            offset,
            sem,
            nrefs,
            kind: _,
            root,
        } => {
            if let Some((id, raw)) = do_alloc(
                mid,
                AllocReq {
                    size: *size,
                    align: *align,
                    offset: *offset,
                    sem: *sem,
                    nrefs: *nrefs as usize,
                    kind: obj::KIND_NORMAL,
                    opts: None,
                },
            ) {
                with_world(|w| w.set_root(mid, *root, id, raw));
            }
        }
        Op::AllocOpt {
            size,
            align,
            offset,
            sem,
            nrefs,
            root,
            overcommit,
            at_safepoint,
            oom_call,
        } => {
            let opts = AllocationOptions {
                allow_overcommit: *overcommit,
                at_safepoint: *at_safepoint,
                allow_oom_call: *oom_call,
            };
            if let Some((id, raw)) = do_alloc(
                mid,
                AllocReq {
                    size: *size,
                    align: *align,
                    offset: *offset,
                    sem: *sem,
                    nrefs: *nrefs as usize,
                    kind: obj::KIND_NORMAL,
                    opts: Some(opts),
                },
            ) {
                with_world(|w| w.set_root(mid, *root, id, raw));
            }
        }
        Op::Write {
            src,
            field,
            val,
            mode,
        } => {
            let locked = with_world(|w| w.spec.cfg.write_mode == 1 && w.nmut > 1);
            let _g = if locked { Some(BIG_LOCK.lock().unwrap()) } else { None };
            let plan = with_world(|w| {
                let sid = w.root_id(mid, *src);
                if sid == 0 {
                    return None;
                }
                let o = w.objs.get(&sid)?.clone();
                let f = writable_field(w, mid, &o, *field as usize)?;
                let (vid, vraw) = match val {
                    None => (0, 0),
                    Some(r) => {
                        let vid = w.root_id(mid, *r);
                        (vid, if vid == 0 { 0 } else { w.root_raw(mid, *r) })
                    }
                };
                // Reference objects' referent slot is not written through ordinary writes.
                Some((sid, w.root_raw(mid, *src), f, vid, vraw))
            });
            if let Some((sid, sraw, f, vid, vraw)) = plan {
                store_field(mid, sraw, sid, f, vraw, vid, *mode);
            }
        }
        Op::Load { src, field, dst } => {
            let r = with_world(|w| {
                let sid = w.root_id(mid, *src);
                if sid == 0 {
                    return None;
                }
                let o = w.objs.get(&sid)?;
                let first = if o.kind != obj::KIND_NORMAL { 1 } else { 0 };
                if o.nrefs <= first {
                    return None;
                }
                let f = first + (*field as usize) % (o.nrefs - first);
                Some((w.root_raw(mid, *src), f))
            });
            if let Some((sraw, f)) = r {
                let src_o = obj::raw_to_ref(sraw).unwrap();
                let slot = obj::slot_addr(obj::start_of(src_o), f);
                with_world(|w| {
                    let raw = unsafe { slot.load::<usize>() };
                    if raw == 0 {
                        w.set_root(mid, *dst, 0, 0);
                    } else {
                        let h = obj::read_hdr(unsafe { Address::from_usize(raw - obj::REF_OFFSET) });
                        if !w.objs.contains_key(&h.id) || h.tomb != 0 {
                            violation(
                                "C01",
                                "mutator-read-garbage",
                                format!("mutator {} loaded {:#x} from a live object's field; header {:?} is not a live object", mid, raw, h),
                            );
                        }
                        w.set_root(mid, *dst, h.id, raw);
                    }
                });
            }
        }
        Op::CopyRegion {
            src,
            sstart,
            dst,
            dstart,
            len,
            mode,
        } => {
            crate::ops2::copy_region(mid, *src, *sstart, *dst, *dstart, *len, *mode, &BIG_LOCK);
        }
        Op::Drop { root } => with_world(|w| w.set_root(mid, *root, 0, 0)),
        Op::Move { from, to } => with_world(|w| {
            let id = w.root_id(mid, *from);
            let raw = if id == 0 { 0 } else { w.root_raw(mid, *from) };
            w.set_root(mid, *to, id, raw);
        }),
        Op::Gc { force, exhaustive } => {
            with_world(|w| w.count("gc_requests_user"));
            let step = simrt::step();
            with_world(|w| {
                w.gc_requests.insert(mid, (step, w.pauses_done));
            });
            let ran = mmtk().handle_user_collection_request(mutator_tls(mid), *force, *exhaustive);
            with_world(|w| {
                w.gc_requests.remove(&mid);
                if ran {
                    w.count("gc_user_ran");
                }
            });
        }
        Op::Poll => {
            mm::gc_poll(mmtk(), mutator_tls(mid));
        }
        Op::Yield => simrt::yield_now(site::mk(site::CLASS_BINDING, 20)),
        other => crate::ops2::exec(mid, other, &BIG_LOCK),
    }
}

pub fn slot_of(raw_obj: usize, f: usize) -> Address {
    obj::slot_addr(obj::start_of(obj::raw_to_ref(raw_obj).unwrap()), f)
}

pub fn load_slot(a: Address) -> Option<ObjectReference> {
    obj::raw_to_ref(unsafe { a.load::<usize>() })
}

pub fn mutator_of(mid: usize) -> &'static mut Mutator<SimVM> {
    mutator_ref(mid)
}
