//! Small deterministic PRNG (xoshiro256**, seeded through splitmix64).  No external state.

#[derive(Clone, Debug)]
pub struct Rng {
    s: [u64; 4],
    pub draws: u64,
}

pub fn splitmix64(x: &mut u64) -> u64 {
    *x = x.wrapping_add(0x9E37_79B9_7F4A_7C15);
    let mut z = *x;
    z = (z ^ (z >> 30)).wrapping_mul(0xBF58_476D_1CE4_E5B9);
    z = (z ^ (z >> 27)).wrapping_mul(0x94D0_49BB_1331_11EB);
    z ^ (z >> 31)
}

impl Rng {
    pub fn new(seed: u64) -> Self {
        let mut x = seed;
        let s = [
            splitmix64(&mut x),
            splitmix64(&mut x),
            splitmix64(&mut x),
            splitmix64(&mut x),
        ];
        Rng { s, draws: 0 }
    }

    /// Derive an independent stream (so that e.g. the workload generator and the scheduler do
    /// not perturb each other).
    pub fn fork(&mut self, salt: u64) -> Rng {
        let a = self.next_u64();
        Rng::new(a ^ salt.wrapping_mul(0xD6E8_FEB8_6659_FD93))
    }

    pub fn next_u64(&mut self) -> u64 {
        self.draws += 1;
        let result = self.s[1].wrapping_mul(5).rotate_left(7).wrapping_mul(9);
        let t = self.s[1] << 17;
        self.s[2] ^= self.s[0];
        self.s[3] ^= self.s[1];
        self.s[1] ^= self.s[2];
        self.s[0] ^= self.s[3];
        self.s[2] ^= t;
        self.s[3] = self.s[3].rotate_left(45);
        result
    }

    /// Uniform in [0, n).  n must be > 0.
    pub fn below(&mut self, n: u64) -> u64 {
        debug_assert!(n > 0);
        // multiply-shift; bias is negligible for our n
        ((self.next_u64() as u128 * n as u128) >> 64) as u64
    }

    pub fn range(&mut self, lo: u64, hi_incl: u64) -> u64 {
        lo + self.below(hi_incl - lo + 1)
    }

    pub fn usize_below(&mut self, n: usize) -> usize {
        self.below(n as u64) as usize
    }

    /// True with probability num/den.
    pub fn chance(&mut self, num: u64, den: u64) -> bool {
        self.below(den) < num
    }

    pub fn pick<'a, T>(&mut self, xs: &'a [T]) -> &'a T {
        &xs[self.usize_below(xs.len())]
    }

    pub fn f64(&mut self) -> f64 {
        (self.next_u64() >> 11) as f64 / (1u64 << 53) as f64
    }
}

pub fn fnv1a(h: &mut u64, bytes: &[u8]) {
    for b in bytes {
        *h ^= *b as u64;
        *h = h.wrapping_mul(0x0000_0100_0000_01B3);
    }
}

pub fn fnv_u64(h: &mut u64, v: u64) {
    fnv1a(h, &v.to_le_bytes());
}

pub const FNV_INIT: u64 = 0xcbf2_9ce4_8422_2325;
