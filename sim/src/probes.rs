//! Allocation-contract checks (C10) and quiescent-point probes (C07, C08, C31).

use mmtk::util::alloc::AllocationOptions;
use mmtk::util::Address;

#[allow(clippy::too_many_arguments)]
pub fn after_alloc(
    _mid: usize,
    _opts: &Option<AllocationOptions>,
    _addr: Address,
    _size: usize,
    _pauses_before: u64,
    _oom_before: usize,
    _step_before: u64,
) {
}

pub fn end_of_run() {}
