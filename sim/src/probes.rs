//! Allocation-contract checks (C10) and quiescent-point probes (C07, C08, C31, C09, C38).

use crate::obj;
use crate::vm::*;
use crate::world::{violation, with_world, World};
use mmtk::memory_manager as mm;
use mmtk::util::alloc::AllocationOptions;
use mmtk::util::verif::introspect::{self, GcInfo};
use mmtk::util::Address;
use std::collections::BTreeMap;

/// C10: the out-of-memory / allocation-option contract, checked over the history of one call.
#[allow(clippy::too_many_arguments)]
pub fn after_alloc(
    mid: usize,
    opts: &Option<AllocationOptions>,
    addr: Address,
    size: usize,
    pauses_before: u64,
    oom_before: usize,
    blocks_before: u64,
) {
    let o = opts.unwrap_or(AllocationOptions {
        allow_overcommit: false,
        at_safepoint: true,
        allow_oom_call: true,
    });
    with_world(|w| {
        let my_tls = TLS_MUTATOR_BASE + mid;
        let ooms: Vec<(usize, u64, u64)> = w.oom_events[oom_before..]
            .iter()
            .filter(|e| e.0 == my_tls)
            .cloned()
            .collect();
        let blocked = w.block_counts[mid] - blocks_before;
        let heap = w.spec.cfg.dynamic_heap.map(|d| d.1).unwrap_or(w.spec.cfg.heap_bytes);
        if !ooms.is_empty() {
            w.count("oom_callbacks_seen_by_allocs");
            if !o.allow_oom_call {
                violation(
                    "C10",
                    "oom-call-not-allowed",
                    format!("alloc(size {}) with allow_oom_call=false called out_of_memory", size),
                );
            }
            if !addr.is_zero() {
                violation(
                    "C10",
                    "oom-then-nonnull",
                    format!("alloc(size {}) called out_of_memory but returned {:?}", size, addr),
                );
            }
            let oversized = size > heap;
            for e in ooms.iter() {
                if !oversized && e.2 <= pauses_before && w.plan.collects {
                    violation(
                        "C10",
                        "oom-without-gc",
                        format!(
                            "alloc(size {}) called out_of_memory although no collection completed since the call started (pauses {} -> {})",
                            size, pauses_before, e.2
                        ),
                    );
                }
                if oversized && blocked > 0 {
                    violation(
                        "C10",
                        "oversized-blocked",
                        format!("alloc(size {}) larger than the heap ({}) blocked for GC {} times", size, heap, blocked),
                    );
                }
            }
            if ooms.len() > 1 {
                violation(
                    "C10",
                    "oom-twice",
                    format!("alloc(size {}) called out_of_memory {} times", size, ooms.len()),
                );
            }
        }
        if !o.at_safepoint && blocked > 0 {
            violation(
                "C10",
                "blocked-outside-safepoint",
                format!("alloc(size {}) with at_safepoint=false called block_for_gc {} times", size, blocked),
            );
        }
        // allow_overcommit lets an allocation proceed although a GC was triggered.  When the page
        // resource itself fails (the space's virtual memory is exhausted, mmap fails) blocking for
        // a GC is still legitimate: only a block that was not preceded by such a failure counts.
        if o.allow_overcommit && blocked > 0 {
            w.count("overcommit_alloc_blocked");
            let tid = crate::simrt::current_tid();
            let pr_failed = w.acquire_fails.get(&tid).cloned().unwrap_or((0, 0)).1;
            if pr_failed == 0 {
                violation(
                    "C10",
                    "overcommit-blocked",
                    format!(
                        "alloc(size {}) with allow_overcommit=true called block_for_gc {} times although the page resource never failed",
                        size, blocked
                    ),
                );
            }
        }
        if opts.is_some() {
            w.count(&format!(
                "allocopt_oc{}_sp{}_oom{}_{}",
                o.allow_overcommit as u8,
                o.at_safepoint as u8,
                o.allow_oom_call as u8,
                if addr.is_zero() { "null" } else { "ok" }
            ));
        }
    });
}

/// Probes at a quiescent point (world stopped, inside resume_mutators).
pub fn at_resume(w: &mut World, found: &BTreeMap<u64, usize>, info: GcInfo) {
    // C09 / C38 raw material: heap numbers after every pause
    let used = mm::used_bytes(mmtk());
    let total = mm::total_bytes(mmtk());
    w.used_after_gc.push((w.pause.n, used, total));
    check_heap_size(w, total, "after a GC");
    crate::oracle2::at_resume(w, found, info, used);
    let full_stw = w.plan.collects && info.nursery != Some(true) && matches!(info.pause, 0 | 1);
    if w.probe_requested || w.end_phase {
        if full_stw {
            w.probe_requested = false;
            object_probes(w, found, true);
        } else {
            object_probes(w, found, false);
        }
    }
}

pub fn check_heap_size(w: &mut World, total_bytes: usize, when: &str) {
    match w.spec.cfg.dynamic_heap {
        Some((min, max)) => {
            let minp = min >> 12;
            let maxp = max >> 12;
            let p = total_bytes >> 12;
            if p < minp || p > maxp {
                violation(
                    "C38",
                    "heap-size-out-of-bounds",
                    format!("{}: current heap size is {} pages, outside DynamicHeapSize [{}, {}] pages", when, p, minp, maxp),
                );
            }
            w.count("heap_size_checks_dynamic");
        }
        None => {
            if total_bytes >> 12 != w.spec.cfg.heap_bytes >> 12 {
                violation(
                    "C38",
                    "fixed-heap-size-changed",
                    format!("{}: heap size is {} bytes, FixedHeapSize is {}", when, total_bytes, w.spec.cfg.heap_bytes),
                );
            }
        }
    }
}

/// C07 (enumeration), C08 (is_mmtk_object / interior pointers), C31 (address -> space).
#[allow(unused_variables)]
pub fn object_probes(w: &mut World, found: &BTreeMap<u64, usize>, exact_enumeration: bool) {
    // model survivors: found ∪ objects of never-collected spaces that are unreachable
    let mut expect: BTreeMap<usize, u64> = BTreeMap::new();
    for (id, a) in found.iter() {
        expect.insert(*a, *id);
    }
    for id in w.immortal_dead.iter() {
        expect.insert(w.objs[id].addr, *id);
    }
    #[cfg(any(feature = "var_a", feature = "var_b"))]
    {
        // ---- C07
        if exact_enumeration && w.fin_registered.values().all(|n| *n == 0) {
            let mut seen: BTreeMap<usize, u32> = BTreeMap::new();
            mmtk().enumerate_objects(|o| {
                *seen.entry(o.to_raw_address().as_usize()).or_insert(0) += 1;
            });
            for (a, n) in seen.iter() {
                if *n != 1 {
                    violation(
                        "C07",
                        "enumerated-twice",
                        format!("enumerate_objects visited {:#x} {} times", a, n),
                    );
                }
                if !expect.contains_key(a) {
                    let h = obj::read_hdr(unsafe { Address::from_usize(*a - obj::REF_OFFSET) });
                    violation(
                        "C07",
                        "enumerated-dead-object",
                        format!(
                            "after exhaustive GC (pause {}): enumerate_objects reports {:#x} (header {:?}, space {}) which is not a surviving object",
                            w.pause.n,
                            a,
                            h,
                            introspect::sft_name(unsafe { Address::from_usize(*a) })
                        ),
                    );
                }
            }
            for (a, id) in expect.iter() {
                if !seen.contains_key(a) {
                    violation(
                        "C07",
                        "survivor-not-enumerated",
                        format!("after exhaustive GC (pause {}): surviving object {} at {:#x} is not reported by enumerate_objects", w.pause.n, id, a),
                    );
                }
            }
            w.count("enumerations_exact");
            w.count_n("enumerated_objects", seen.len() as u64);
        }
        // ---- C08: sample of objects
        let mut n = 0;
        let stride = (expect.len() / 64).max(1);
        for (i, (a, id)) in expect.iter().enumerate() {
            if i % stride != 0 {
                continue;
            }
            n += 1;
            let o = &w.objs[id];
            let start = *a - obj::REF_OFFSET;
            let end = start + o.size;
            let addr = |x: usize| unsafe { Address::from_usize(x) };
            match mm::is_mmtk_object(addr(*a)) {
                Some(r) if r.to_raw_address().as_usize() == *a => {}
                other => violation(
                    "C08",
                    "valid-object-rejected",
                    format!("is_mmtk_object({:#x}) = {:?} for live object {}", a, other, id),
                ),
            }
            // words inside the object that are not a reference of another object
            for p in [*a + 8, *a + 16, end - 8] {
                if p >= end || p == *a || expect.contains_key(&p) {
                    continue;
                }
                if let Some(r) = mm::is_mmtk_object(addr(p)) {
                    violation(
                        "C08",
                        "interior-word-accepted",
                        format!("is_mmtk_object({:#x}) = {:?}, but that is an interior word of object {} at {:#x}", p, r, id, a),
                    );
                }
                // interior pointer lookup
                let max = o.size + 64;
                match mm::find_object_from_internal_pointer(addr(p), max) {
                    Some(r) if r.to_raw_address().as_usize() == *a => {}
                    other => violation(
                        "C08",
                        "interior-pointer-wrong",
                        format!("find_object_from_internal_pointer({:#x}, {}) = {:?}, expected object {} at {:#x} (size {})", p, max, other, id, a, o.size),
                    ),
                }
                // a search window too small to reach the reference must fail
                // (The large object space applies the window at page granularity -- the window is a
                // search-cost bound there -- so the negative direction is only asserted elsewhere.)
                if p - *a >= 16 && !matches!(o.space, "los" | "pageprotect") {
                    let small = p - *a - 8;
                    if let Some(r) = mm::find_object_from_internal_pointer(addr(p), small) {
                        if r.to_raw_address().as_usize() == *a {
                            violation(
                                "C08",
                                "interior-pointer-beyond-window",
                                format!("find_object_from_internal_pointer({:#x}, {}) found {:#x} which is {} bytes below", p, small, a, p - *a),
                            );
                        }
                    }
                }
            }
            // the pointer itself resolves to the object
            match mm::find_object_from_internal_pointer(addr(*a), 0usize.max(8)) {
                Some(r) if r.to_raw_address().as_usize() == *a => {}
                other => violation(
                    "C08",
                    "interior-pointer-wrong",
                    format!("find_object_from_internal_pointer({:#x}, 8) = {:?}, expected the object itself ({})", a, other, id),
                ),
            }
            // one word past the end belongs to someone else or nobody
            if !expect.contains_key(&end) && !expect.contains_key(&(end + obj::REF_OFFSET)) {
                if let Some(r) = mm::find_object_from_internal_pointer(addr(end + obj::REF_OFFSET), 8) {
                    if r.to_raw_address().as_usize() == *a {
                        violation(
                            "C08",
                            "past-the-end-resolves",
                            format!("find_object_from_internal_pointer({:#x}, 8) returned object {} whose range ends at {:#x}", end + obj::REF_OFFSET, id, end),
                        );
                    }
                }
            }
        }
        w.count_n("c08_objects_probed", n);
        // addresses inside a space's address range but in memory that was never mapped: neither
        // lookup may touch them (a crash here ends the run as `crash-SIGSEGV`)
        {
            let mut unmapped_probes = 0u64;
            for si in introspect::spaces(mmtk()).iter() {
                if !si.contiguous || si.extent == 0 {
                    continue;
                }
                let (lo, ext) = (si.start.as_usize(), si.extent);
                for p in [lo + ext / 2 + 8, lo + ext - 4096 + 8, lo + ext / 4 * 3 + 16, lo + (ext / 8 * 7 & !4095) + 8] {
                    let a = unsafe { Address::from_usize(p) };
                    if mm::is_mapped_address(a) {
                        continue;
                    }
                    unmapped_probes += 1;
                    if mm::is_mmtk_object(a).is_some() {
                        violation("C08", "unmapped-address-accepted", format!("is_mmtk_object({:#x}) accepted an unmapped address of space '{}'", p, si.name));
                    }
                    if mm::find_object_from_internal_pointer(a, 1 << 20).is_some() {
                        violation("C08", "unmapped-address-accepted", format!("find_object_from_internal_pointer({:#x}) found an object at an unmapped address of space '{}'", p, si.name));
                    }
                }
            }
            w.count_n("c08_unmapped_probes", unmapped_probes);
        }
        // addresses outside MMTk memory must not panic and must be rejected
        for p in [8usize, 0x1000, 0x7fff_ffff_f000, usize::MAX & !7, w.spec.cfg.meta_base + 4096] {
            if mm::is_mmtk_object(unsafe { Address::from_usize(p) }).is_some() {
                violation("C08", "outside-address-accepted", format!("is_mmtk_object({:#x}) accepted an address outside the heap", p));
            }
            if mm::find_object_from_internal_pointer(unsafe { Address::from_usize(p) }, 4096).is_some() {
                violation("C08", "outside-address-accepted", format!("find_object_from_internal_pointer({:#x}) found an object outside the heap", p));
            }
        }
    }
    // ---- C31: address -> space resolution agrees with where the object was allocated
    let spaces = introspect::spaces(mmtk());
    let mut checked = 0u64;
    for (a, id) in expect.iter() {
        let o = &w.objs[id];
        let name = introspect::sft_name(unsafe { Address::from_usize(*a) });
        // moved objects change space; only check never-moving semantics against their space
        let stable = matches!(o.sem, crate::spec::SEM_IMMORTAL | crate::spec::SEM_LOS | crate::spec::SEM_NONMOVING) || !w.plan.moves;
        if stable && name != o.space {
            violation(
                "C31",
                "sft-space-changed",
                format!("object {} at {:#x} was allocated in '{}' but the SFT map now resolves it to '{}'", id, a, o.space, name),
            );
        }
        if name == "empty" || name.is_empty() {
            violation(
                "C31",
                "live-object-in-empty-space",
                format!("live object {} at {:#x} resolves to the empty SFT", id, a),
            );
        }
        if let Some(si) = spaces.iter().find(|s| s.name == name) {
            match introspect::descriptor_index(unsafe { Address::from_usize(*a) }) {
                Some(ix) if ix == si.index => {}
                other => violation(
                    "C31",
                    "descriptor-disagrees",
                    format!("address {:#x}: SFT says space '{}' (index {}), VM map descriptor index is {:?}", a, name, si.index, other),
                ),
            }
        }
        let oref = obj::raw_to_ref(*a).unwrap();
        if !mm::is_in_mmtk_spaces(oref) {
            violation("C31", "live-object-not-in-spaces", format!("is_in_mmtk_spaces({:#x}) is false for live object {}", a, id));
        }
        checked += 1;
    }
    // addresses outside [heap_start, heap_end): fixed ones, the heap boundaries, and images of
    // live objects shifted by large powers of two (index aliasing)
    let layout = mmtk::util::heap::vm_layout::vm_layout();
    let (hs, he) = (layout.heap_start.as_usize(), layout.heap_end.as_usize());
    let mut outside: Vec<usize> = vec![8usize, 0x10_0000, 0x7fff_ffff_f000, w.spec.cfg.meta_base + 4096, usize::MAX & !7];
    outside.push(he);
    outside.push(he + 4096);
    outside.push(hs - 8);
    for k in [1usize, 2, 3, 5, 8, 13, 21] {
        outside.push(he.wrapping_add(k << 41) & !7);
        outside.push(he.wrapping_add(k << 32) & !7);
    }
    for (i, (a, _)) in expect.iter().enumerate() {
        if i % 16 == 0 {
            for sh in [45usize, 46, 47, 48, 52, 63] {
                outside.push(*a ^ (1usize << sh));
                outside.push(a.wrapping_add(1usize << sh));
            }
        }
    }
    for p in outside {
        if p >= hs && p < he {
            continue;
        }
        let a = unsafe { Address::from_usize(p) };
        let name = introspect::sft_name(a);
        if name != "empty" {
            violation("C31", "outside-address-in-space", format!("address {:#x} outside the heap [{:#x},{:#x}) resolves to space '{}'", p, hs, he, name));
        }
        if let Some(ix) = introspect::descriptor_index(a) {
            violation("C31", "outside-address-has-descriptor", format!("address {:#x} outside the heap [{:#x},{:#x}) has the space descriptor of space index {}", p, hs, he, ix));
        }
        w.count("c31_outside_addresses_checked");
        if let Some(r) = obj::raw_to_ref(p) {
            if mm::is_in_mmtk_spaces(r) {
                violation("C31", "outside-address-in-space", format!("is_in_mmtk_spaces({:#x}) is true outside the heap", p));
            }
        }
    }
    w.count_n("c31_addresses_checked", checked);
}

pub fn end_of_run() {
    with_world(|w| {
        let found = crate::oracle::end_of_run_walk(w);
        object_probes(w, &found, false);
    });
}
