use sim::spec::RunSpec;

fn main() {
    let args: Vec<String> = std::env::args().collect();
    let mut seed: u64 = 1;
    let mut focus = "C01".to_string();
    let mut tier = "quick".to_string();
    let mut spec_path: Option<String> = None;
    let mut dump = false;
    let mut i = 1;
    while i < args.len() {
        match args[i].as_str() {
            "--seed" => {
                seed = args[i + 1].parse().unwrap();
                i += 1;
            }
            "--focus" => {
                focus = args[i + 1].clone();
                i += 1;
            }
            "--tier" => {
                tier = args[i + 1].clone();
                i += 1;
            }
            "--spec" => {
                spec_path = Some(args[i + 1].clone());
                i += 1;
            }
            "--dump-spec" => dump = true,
            _ => {}
        }
        i += 1;
    }
    let spec: RunSpec = match spec_path {
        Some(p) => {
            let s = std::fs::read_to_string(&p).expect("cannot read spec");
            let v: serde_json::Value = serde_json::from_str(&s).expect("bad json");
            // a replay file wraps the spec under "spec"
            let sv = if v.get("spec").is_some() { v["spec"].clone() } else { v };
            serde_json::from_value(sv).expect("bad spec")
        }
        None => sim::gen::gen_spec(seed, &focus, &tier),
    };
    if dump {
        println!("{}", serde_json::to_string(&spec).unwrap());
        return;
    }
    sim::exec::run(spec);
}
