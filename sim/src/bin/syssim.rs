use sim::spec::RunSpec;

struct StderrLogger;
impl log::Log for StderrLogger {
    fn enabled(&self, _m: &log::Metadata) -> bool {
        true
    }
    fn log(&self, r: &log::Record) {
        eprintln!(
            "[{}] {} {}: {}",
            std::thread::current().name().unwrap_or("?"),
            r.level(),
            r.target(),
            r.args()
        );
    }
    fn flush(&self) {}
}
static LOGGER: StderrLogger = StderrLogger;

fn main() {
    // Debugging aid only (never used by checks): SIM_LOG=trace|debug|info prints mmtk-core's log.
    if let Ok(l) = std::env::var("SIM_LOG") {
        let _ = log::set_logger(&LOGGER);
        log::set_max_level(l.parse().unwrap_or(log::LevelFilter::Debug));
    }
    let args: Vec<String> = std::env::args().collect();
    let mut seed: u64 = 1;
    let mut focus = "C01".to_string();
    let mut tier = "quick".to_string();
    let mut spec_path: Option<String> = None;
    let mut dump = false;
    let mut i = 1;
    while i < args.len() {
        match args[i].as_str() {
            "--seed" => {
                seed = args[i + 1].parse().unwrap();
                i += 1;
            }
            "--focus" => {
                focus = args[i + 1].clone();
                i += 1;
            }
            "--tier" => {
                tier = args[i + 1].clone();
                i += 1;
            }
            "--spec" => {
                spec_path = Some(args[i + 1].clone());
                i += 1;
            }
            "--dump-spec" => dump = true,
            _ => {}
        }
        i += 1;
    }
    let spec: RunSpec = match spec_path {
        Some(p) => {
            let s = std::fs::read_to_string(&p).expect("cannot read spec");
            let v: serde_json::Value = serde_json::from_str(&s).expect("bad json");
            // a replay file wraps the spec under "spec"
            let sv = if v.get("spec").is_some() { v["spec"].clone() } else { v };
            serde_json::from_value(sv).expect("bad spec")
        }
        None => sim::gen::gen_spec(seed, &focus, &tier),
    };
    if dump {
        println!("{}", serde_json::to_string(&spec).unwrap());
        return;
    }
    sim::exec::run(spec);
}
