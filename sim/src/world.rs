//! World: harness state, the shadow heap (reference model), and the oracles.
//!
//! Discipline: `with_world` must never be held across a call into mmtk-core (mmtk-core may yield
//! or emit events, which would re-enter).  It is only `try_lock`ed; contention is a harness bug.

use crate::obj::{self, Hdr};
use crate::simrt::{self, Observer, SchedStats};
use crate::spec::*;
use crate::vm::*;
use mmtk::util::alloc::AllocationError;
use mmtk::util::verif::introspect::{self, GcInfo};
use mmtk::util::verif::rt::ev;
use mmtk::util::{Address, ObjectReference};
use serde::Serialize;
use std::collections::{BTreeMap, BTreeSet, VecDeque};
use std::sync::atomic::Ordering;
use std::sync::Mutex;

#[derive(Clone, Debug)]
pub struct SObj {
    pub id: u64,
    pub size: usize,
    pub nrefs: usize,
    pub kind: u8,
    pub flags: u8,
    pub sem: u8,
    pub fields: Vec<u64>,
    /// raw ObjectReference
    pub addr: usize,
    pub pin_ops: u32,
    pub pins_true: u32,
    pub unpins_true: u32,
    pub alloc_pause: u64,
    pub owner: usize,
    /// Name of the space it was allocated in.
    pub space: &'static str,
}

pub fn watch_id() -> u64 {
    static W: std::sync::OnceLock<u64> = std::sync::OnceLock::new();
    *W.get_or_init(|| std::env::var("SIM_WATCH_ID").ok().and_then(|s| s.parse().ok()).unwrap_or(0))
}

impl SObj {
    pub fn pinned(&self) -> bool {
        self.pins_true > self.unpins_true
    }
}

#[derive(Clone, Debug, Default)]
pub struct PauseRec {
    pub n: u64,
    pub active: bool,
    pub stopped: bool,
    pub stop_begin_step: u64,
    pub roots_scanned: [u32; MAX_MUT],
    pub vm_roots_scanned: u32,
    pub scans: u64,
    pub copies: u64,
    pub scanned_ids: BTreeMap<u64, u32>,
    pub copied_ids: BTreeMap<u64, u32>,
    pub weak_rounds: u32,
    pub weak_traced_rounds: u32,
    /// set when process_weak_refs saw an object the closure had not reached yet
    pub closure_suspect: Option<String>,
    pub weak_done: bool,
    pub forward_calls: u32,
    pub enqueued: Vec<u64>,
    pub cleared: Vec<u64>,
    pub packets_run: u64,
    /// ConcurrentImmix pause kind captured while the pause is in progress (the plan resets it in
    /// end_of_gc, before resume_mutators is called).
    pub pause_kind: u8,
}

#[derive(Clone, Debug, Default)]
pub struct RefRec {
    pub kind: u8,
    pub referent: u64,
    pub cleared: bool,
    pub enqueued: u32,
}

#[derive(Clone, Debug, Default)]
pub struct PlanInfo {
    pub name: String,
    pub moves: bool,
    pub generational: bool,
    pub collects: bool,
    pub concurrent: bool,
    pub needs_forward: bool,
    pub max_non_los: usize,
    pub barrier_satb: bool,
    pub barrier_object: bool,
    pub sem_ok: [bool; 8],
    /// Plan supports pinning roots and pin_object on default-space objects.
    pub pins: bool,
    /// Root-scanning rounds per pause: MarkCompact and Compressor re-scan all roots in their
    /// `SecondRoots` stage to forward them (documented design), every other plan scans once.
    pub root_rounds: u32,
}

pub struct World {
    pub spec: RunSpec,
    pub plan: PlanInfo,
    pub nmut: usize,
    pub objs: BTreeMap<u64, SObj>,
    pub lroots: Vec<[u64; NROOTS]>,
    pub groots: [u64; NGLOBAL],
    pub next_id: u64,
    /// start -> (end, id): memory that must not be handed out again.
    pub occupied: BTreeMap<usize, (usize, u64)>,
    pub pause: PauseRec,
    pub pauses_done: u64,
    pub reclaiming_pauses: u64,
    pub counters: BTreeMap<String, u64>,
    pub refs: BTreeMap<u64, RefRec>,
    /// finalizer registrations: object id -> count still registered
    pub fin_registered: BTreeMap<u64, u32>,
    /// ids popped by get_finalized_object
    pub fin_popped: BTreeMap<u64, u32>,
    /// ids that the model says became unreachable while registered: -> pending pops
    pub fin_ready: BTreeMap<u64, u32>,
    /// registered finalizable ids that were seen unreachable at the end of some pause
    pub fin_unreachable_seen: BTreeSet<u64>,
    pub probe_requested: bool,
    pub block_counts: [u64; MAX_MUT],
    pub fork_epoch: u64,
    /// per simulated thread: alloc_slow_inline iterations of the allocation in progress
    pub alloc_slow_iters: BTreeMap<usize, u64>,
    /// per simulated thread, for the allocation in progress: (acquire calls that returned no pages
    /// without asking the page resource, acquire calls whose page resource request failed)
    pub acquire_fails: BTreeMap<usize, (u64, u64)>,
    pub used_after_gc: Vec<(u64, usize, usize)>,
    /// ephemeron table: (key id, value id), with their current raw addresses
    pub ephemerons: Vec<Ephemeron>,
    /// SATB: objects that must survive the final mark pause (ids)
    pub satb_keep: BTreeSet<u64>,
    pub satb_active: bool,
    /// objects allocated while concurrent marking is in progress (the N of S ∪ N)
    pub satb_new: BTreeSet<u64>,
    /// Objects in never-collected spaces that became unreachable (still must stay intact).
    pub immortal_dead: BTreeSet<u64>,
    pub oom_events: Vec<(usize, u64, u64)>, // (tls, step, pauses_done)
    /// reference objects for which clear_referent was ever called
    pub cleared_ever: BTreeSet<u64>,
    /// event histories of the property-specific oracles (oracle2.rs)
    pub hist: crate::oracle2::Hist,
    pub blocked_for_gc: [bool; MAX_MUT],
    pub gc_requests: BTreeMap<usize, (u64, u64)>, // mid -> (step, pauses_done at request)
    pub recent: VecDeque<String>,
    pub injected_pending: BTreeMap<u64, u32>,
    pub injected_next: u64,
    pub workers_exited: Vec<usize>,
    pub workers_spawned: Vec<usize>,
    pub sched: SchedHist,
    pub last_gc_info: GcInfo,
    pub alloc_count: u64,
    pub alloc_bytes: u64,
    pub end_phase: bool,
}

#[derive(Clone, Debug)]
pub struct Ephemeron {
    pub key: u64,
    pub value: u64,
    pub key_addr: usize,
    pub value_addr: usize,
    pub value_traced_in_pause: u64,
    /// key address returned by the tracer in forward_weak_refs (0 = none)
    pub key_fwd: usize,
    pub settled_in_pause: u64,
}

/// Scheduler-event history (C14/C15).
#[derive(Default)]
pub struct SchedHist {
    /// live packets: (box address, type name) -> [(seq, stage, pause n at add)].  Zero-sized
    /// packets share one dangling address, so identity is a multiset per (address, type).
    pub live: BTreeMap<(usize, String), Vec<(u64, usize, u64)>>,
    pub live_count: usize,
    pub next_seq: u64,
    pub pending_name: Option<(usize, String)>,
    pub pending_run_name: Option<String>,
    pub added: u64,
    pub run: u64,
    pub in_add: i64,
    pub parked: usize,
    pub workers: usize,
    pub open: BTreeSet<usize>,
    pub type_counts: BTreeMap<String, u64>,
    pub coarse_states: BTreeSet<u64>,
    pub outside_pause_added: u64,
    pub last_parked_results: [u64; 3],
    pub gc_goal_requests: u64,
    pub gc_goal_started: u64,
}

static WORLD: Mutex<Option<World>> = Mutex::new(None);
/// Raw pointer to the world for the reporting path (which may run while `with_world` is active
/// further up the same stack; execution is single-threaded by construction).
static WORLD_PTR: std::sync::atomic::AtomicPtr<World> =
    std::sync::atomic::AtomicPtr::new(std::ptr::null_mut());

pub fn install_world(w: World) {
    let mut g = WORLD.lock().unwrap();
    *g = Some(w);
    WORLD_PTR.store(g.as_mut().unwrap() as *mut World, Ordering::SeqCst);
}

/// Non-zero while the model is being consulted or updated: the harness calls into mmtk-core from
/// there (is_pinned, is_mmtk_object, ...), and those calls must not be scheduling points.
pub static WORLD_HELD: std::sync::atomic::AtomicUsize = std::sync::atomic::AtomicUsize::new(0);

pub fn with_world<R>(f: impl FnOnce(&mut World) -> R) -> R {
    let mut g = match WORLD.try_lock() {
        Ok(g) => g,
        Err(_) => harness_error("world lock contended (harness bug)".into()),
    };
    WORLD_HELD.fetch_add(1, Ordering::SeqCst);
    let r = f(g.as_mut().expect("world not installed"));
    WORLD_HELD.fetch_sub(1, Ordering::SeqCst);
    r
}

// ---------------------------------------------------------------------------------------------
// Outcome reporting
// ---------------------------------------------------------------------------------------------

#[derive(Serialize, Default)]
pub struct Outcome {
    pub status: String,
    pub property: String,
    pub native_property: String,
    pub class: String,
    pub message: String,
    pub seed: u64,
    pub variant: String,
    pub focus: String,
    pub plan: String,
    pub shape: String,
    pub pauses: u64,
    pub allocs: u64,
    pub alloc_bytes: u64,
    pub sched: SchedStats,
    pub counters: BTreeMap<String, u64>,
    pub packet_types: BTreeMap<String, u64>,
    pub coarse_states: u64,
    pub coarse_state_list: Vec<u64>,
    pub recent: Vec<String>,
    pub recorded: Option<simrt::Explicit>,
}

pub static REPLAY_OUT: Mutex<Option<String>> = Mutex::new(None);

fn emit(mut out: Outcome, code: i32) -> ! {
    out.sched = simrt::stats();
    let want_rec = code == 1;
    if want_rec {
        out.recorded = Some(simrt::recorded());
    }
    // try to attach world info; the world may be locked if we died inside with_world
    {
        let p = WORLD_PTR.load(Ordering::SeqCst);
        if !p.is_null() {
            let w: &mut World = unsafe { &mut *p };
            out.seed = w.spec.seed;
            out.variant = w.spec.variant.clone();
            out.focus = w.spec.focus.clone();
            out.plan = w.spec.cfg.plan.clone();
            out.shape = w.spec.shape.clone();
            out.pauses = w.pauses_done;
            out.allocs = w.alloc_count;
            out.alloc_bytes = w.alloc_bytes;
            out.counters = w.counters.clone();
            out.packet_types = w.sched.type_counts.clone();
            out.coarse_states = w.sched.coarse_states.len() as u64;
            out.coarse_state_list = w.sched.coarse_states.iter().cloned().collect();
            out.recent = w.recent.iter().cloned().collect();
            if out.property.is_empty() {
                out.property = w.spec.focus.clone();
            }
        }
    }
    let s = serde_json::to_string(&out).unwrap();
    println!("{}", s);
    use std::io::Write;
    let _ = std::io::stdout().flush();
    unsafe { libc::_exit(code) }
}

pub fn violation(native_property: &str, class: &str, message: String) -> ! {
    if simrt::set_in_fatal() {
        // another thread is already reporting
        loop {
            std::thread::park();
        }
    }
    if std::env::var("SIM_BACKTRACE").is_ok() {
        eprintln!("violation backtrace:\n{}", std::backtrace::Backtrace::force_capture());
    }
    emit(
        Outcome {
            status: "violation".into(),
            native_property: native_property.into(),
            class: class.into(),
            message,
            ..Default::default()
        },
        1,
    )
}

pub fn harness_error(message: String) -> ! {
    if simrt::set_in_fatal() {
        loop {
            std::thread::park();
        }
    }
    emit(
        Outcome {
            status: "harness-error".into(),
            class: "harness".into(),
            message,
            ..Default::default()
        },
        2,
    )
}

pub fn finish_ok() -> ! {
    simrt::set_in_fatal();
    emit(
        Outcome {
            status: "ok".into(),
            ..Default::default()
        },
        0,
    )
}

impl World {
    pub fn count(&mut self, k: &str) {
        *self.counters.entry(k.to_string()).or_insert(0) += 1;
    }
    pub fn count_n(&mut self, k: &str, n: u64) {
        *self.counters.entry(k.to_string()).or_insert(0) += n;
    }
    pub fn note(&mut self, s: String) {
        if std::env::var("SIM_NOTES").is_ok() {
            eprintln!("NOTE {}", s);
        }
        #[cfg(any(feature = "var_a", feature = "var_b"))]
        if let Ok(a) = std::env::var("SIM_WATCH_VO") {
            let a = usize::from_str_radix(a.trim_start_matches("0x"), 16).unwrap();
            let addr = unsafe { Address::from_usize(a) };
            if mmtk::memory_manager::is_mapped_address(addr) {
                let v = mmtk::memory_manager::is_mmtk_object(addr).is_some();
                eprintln!("WATCH vo({:#x})={} at: {}", a, v, s);
            }
        }
        if self.recent.len() >= 40 {
            self.recent.pop_front();
        }
        self.recent.push_back(s);
    }
    pub fn root_id(&self, mid: usize, r: RootRef) -> u64 {
        if r.g {
            self.groots[r.i as usize % NGLOBAL]
        } else {
            self.lroots[mid][r.i as usize % NROOTS]
        }
    }
    pub fn set_root(&mut self, mid: usize, r: RootRef, id: u64, raw: usize) {
        if watch_id() != 0 && self.root_id(mid, r) == watch_id() {
            eprintln!("WATCHID root {:?} of mutator {} overwritten -> {}", r, mid, id);
        }
        if r.g {
            let i = r.i as usize % NGLOBAL;
            self.groots[i] = id;
            ROOTS_GLOBAL[i].store(raw, Ordering::SeqCst);
        } else {
            let i = r.i as usize % NROOTS;
            self.lroots[mid][i] = id;
            ROOTS_LOCAL[mid][i].store(raw, Ordering::SeqCst);
        }
    }
    pub fn root_raw(&self, mid: usize, r: RootRef) -> usize {
        if r.g {
            ROOTS_GLOBAL[r.i as usize % NGLOBAL].load(Ordering::SeqCst)
        } else {
            ROOTS_LOCAL[mid][r.i as usize % NROOTS].load(Ordering::SeqCst)
        }
    }

    /// C02: insert [start, end) into the occupied set; overlap is a violation.
    pub fn occupy(&mut self, start: usize, end: usize, id: u64, what: &str) {
        if let Some((s, (e, oid))) = self.occupied.range(..end).next_back() {
            if *e > start {
                let msg = format!(
                    "{}: [{:#x},{:#x}) for object {} overlaps live object {} at [{:#x},{:#x})",
                    what, start, end, id, oid, s, e
                );
                violation("C02", "alloc-overlap", msg);
            }
        }
        self.occupied.insert(start, (end, id));
    }

    /// Strongly reachable ids from all roots (shadow graph).
    pub fn reachable(&self) -> BTreeSet<u64> {
        let mut seen = BTreeSet::new();
        let mut stack: Vec<u64> = Vec::new();
        for m in 0..self.nmut {
            for id in self.lroots[m].iter() {
                if *id != 0 {
                    stack.push(*id);
                }
            }
        }
        for id in self.groots.iter() {
            if *id != 0 {
                stack.push(*id);
            }
        }
        self.close(&mut seen, stack);
        seen
    }

    pub fn close(&self, seen: &mut BTreeSet<u64>, mut stack: Vec<u64>) {
        while let Some(id) = stack.pop() {
            if !seen.insert(id) {
                continue;
            }
            if let Some(o) = self.objs.get(&id) {
                let first = if o.kind != obj::KIND_NORMAL { 1 } else { 0 };
                for f in o.fields.iter().skip(first) {
                    if *f != 0 && !seen.contains(f) {
                        stack.push(*f);
                    }
                }
            }
        }
    }
}

// ---------------------------------------------------------------------------------------------
// Binding call-backs
// ---------------------------------------------------------------------------------------------

pub fn on_stop_begin() {
    let step = simrt::step();
    with_world(|w| {
        if w.pause.active {
            violation(
                "C11",
                "stop-while-stopped",
                format!("stop_all_mutators called during pause {}", w.pause.n),
            );
        }
        w.pause = PauseRec {
            n: w.pauses_done + 1,
            active: true,
            stop_begin_step: step,
            ..Default::default()
        };
        w.note(format!("stop_all_mutators begin (pause {})", w.pauses_done + 1));
    });
}

pub fn on_stop_end() {
    let info = introspect::gc_info(mmtk());
    with_world(|w| {
        w.pause.pause_kind = info.pause;
        w.pause.stopped = true;
        w.note("all mutators stopped".into());
    });
}

fn tracing_allowed(w: &World) -> bool {
    (w.pause.active && w.pause.stopped) || (w.plan.concurrent && w.satb_active)
}

pub fn on_scan_object(object: ObjectReference, h: &Hdr) {
    // The SATB barrier's slow path enumerates the fields of the object being written by calling
    // scan_object on the mutator's own thread; that is not collector tracing.
    let by_mutator_barrier = std::thread::current().name().map_or(false, |n| n.starts_with("mutator"));
    with_world(|w| {
        if by_mutator_barrier && w.plan.barrier_satb {
            w.count("barrier_scans_by_mutator");
            if !w.satb_active {
                w.count("barrier_scans_outside_marking");
            }
            return;
        }
        if !tracing_allowed(w) {
            violation(
                "C11",
                "trace-outside-pause",
                format!(
                    "scan_object({:?}, id {}) while mutators are not stopped (pause active={} stopped={})",
                    object, h.id, w.pause.active, w.pause.stopped
                ),
            );
        }
        if h.tomb != 0 {
            violation(
                "C01",
                "scan-stale-copy",
                format!("scan_object on a stale (moved-from) copy {:?} id {}", object, h.id),
            );
        }
        // The collector must only ever trace real objects.
        match w.objs.get(&h.id) {
            Some(o) if o.size == h.size as usize && o.nrefs == h.nrefs as usize => {}
            _ => violation(
                "C01",
                "scan-of-non-object",
                format!(
                    "scan_object({:?}): the header there ({:?}) does not describe any object the VM ever allocated",
                    object, h
                ),
            ),
        }
        w.pause.scans += 1;
        *w.pause.scanned_ids.entry(h.id).or_insert(0) += 1;
        if std::env::var("SIM_NOTES").is_ok() {
            eprintln!("NOTE scan_object id {} at {:?} by {}", h.id, object, std::thread::current().name().unwrap_or("?"));
        }
    });
}

pub fn on_copy_begin(from: ObjectReference, h: &Hdr) {
    with_world(|w| {
        if !(w.pause.active && w.pause.stopped) {
            violation(
                "C11",
                "copy-outside-pause",
                format!("copy({:?}, id {}) while mutators are not stopped", from, h.id),
            );
        }
        if h.tomb != 0 {
            violation(
                "C17",
                "copy-stale-copy",
                format!("copy of an already moved object {:?} id {}", from, h.id),
            );
        }
    });
}

pub fn on_copy_end(
    from: ObjectReference,
    to: ObjectReference,
    h: &Hdr,
    dst: Address,
    align: usize,
    offset: usize,
) {
    with_world(|w| {
        w.pause.copies += 1;
        let c = w.pause.copied_ids.entry(h.id).or_insert(0);
        *c += 1;
        if *c > 1 {
            violation(
                "C17",
                "copied-twice",
                format!(
                    "object id {} copied {} times in pause {} (last {:?} -> {:?})",
                    h.id, *c, w.pause.n, from, to
                ),
            );
        }
        if (dst.as_usize() + offset) % align != 0 {
            violation(
                "C03",
                "copy-misaligned",
                format!("alloc_copy returned {:?} for align {} offset {}", dst, align, offset),
            );
        }
        if let Some(o) = w.objs.get(&h.id) {
            if o.pinned() || matches!(o.sem, SEM_IMMORTAL | SEM_LOS | SEM_NONMOVING) {
                violation(
                    "C04",
                    "moved-unmovable",
                    format!(
                        "object id {} (sem {}, pinned {}) was copied {:?} -> {:?}",
                        h.id, o.sem, o.pinned(), from, to
                    ),
                );
            }
        }
    });
}

pub fn on_copy_to(from: ObjectReference, to: ObjectReference, h: &Hdr) {
    with_world(|w| {
        if !(w.pause.active && w.pause.stopped) {
            violation(
                "C11",
                "copy-outside-pause",
                format!("copy_to({:?}) while mutators are not stopped", from),
            );
        }
        w.pause.copies += 1;
        if from != to {
            if let Some(o) = w.objs.get(&h.id) {
                if o.pinned() || matches!(o.sem, SEM_IMMORTAL | SEM_LOS | SEM_NONMOVING) {
                    violation(
                        "C04",
                        "moved-unmovable",
                        format!("object id {} was compacted {:?} -> {:?}", h.id, from, to),
                    );
                }
            }
            if to.to_raw_address() > from.to_raw_address() {
                w.count("compact_moved_up");
            }
        }
    });
}

fn root_class(w: &World, slot_index: usize, salt: usize) -> u8 {
    // deterministic pseudo-random classification of a root slot for this run
    let p = w.spec.cfg.pinning_roots_pct as usize;
    let t = w.spec.cfg.tpinning_roots_pct as usize;
    if (p == 0 && t == 0) || !w.plan.pins {
        return 0;
    }
    let x = (slot_index * 37 + salt * 101 + (w.spec.seed as usize & 0xff)) % 100;
    if x < p {
        1
    } else if x < p + t {
        2
    } else {
        0
    }
}

pub fn on_scan_mutator_roots(mid: usize) -> (usize, Vec<(Address, u8)>) {
    with_world(|w| {
        if !(w.pause.active && w.pause.stopped) {
            violation(
                "C11",
                "roots-outside-pause",
                format!("scan_roots_in_mutator_thread({}) while mutators are not stopped", mid),
            );
        }
        w.pause.roots_scanned[mid] += 1;
        if w.pause.roots_scanned[mid] > w.plan.root_rounds {
            violation(
                "C11",
                "roots-scanned-twice",
                format!("mutator {} roots scanned {} times in pause {}", mid, w.pause.roots_scanned[mid], w.pause.n),
            );
        }
        let mut v = Vec::new();
        for i in 0..NROOTS {
            let a = Address::from_ref(&ROOTS_LOCAL[mid][i]);
            v.push((a, root_class(w, i, mid + 1)));
        }
        (w.spec.cfg.root_batch.max(1), v)
    })
}

pub fn on_scan_vm_roots() -> (usize, Vec<(Address, u8)>) {
    with_world(|w| {
        if !(w.pause.active && w.pause.stopped) {
            violation(
                "C11",
                "roots-outside-pause",
                "scan_vm_specific_roots while mutators are not stopped".into(),
            );
        }
        w.pause.vm_roots_scanned += 1;
        let mut v = Vec::new();
        for i in 0..NGLOBAL {
            let a = Address::from_ref(&ROOTS_GLOBAL[i]);
            v.push((a, root_class(w, i, 0)));
        }
        (w.spec.cfg.root_batch.max(1), v)
    })
}

pub fn on_block_for_gc(mid: usize) {
    let step = simrt::step();
    with_world(|w| {
        w.blocked_for_gc[mid] = true;
        w.block_counts[mid] += 1;
        w.gc_requests.insert(mid, (step, w.pauses_done));
        w.count("block_for_gc");
    });
}

pub fn on_unblocked(mid: usize) {
    with_world(|w| {
        w.blocked_for_gc[mid] = false;
        if let Some((_s, p)) = w.gc_requests.remove(&mid) {
            if w.pauses_done <= p {
                violation(
                    "C11",
                    "unblocked-without-gc",
                    format!("mutator {} released from block_for_gc but no pause completed (pauses {} -> {})", mid, p, w.pauses_done),
                );
            }
        }
    });
}

pub fn on_spawn_worker(ordinal: usize) {
    with_world(|w| {
        w.workers_spawned.push(ordinal);
    });
}

pub fn on_worker_exit(ordinal: usize) {
    with_world(|w| {
        w.workers_exited.push(ordinal);
    });
}

pub fn on_out_of_memory(tls: usize, kind: AllocationError) {
    let step = simrt::step();
    with_world(|w| {
        w.count(match kind {
            AllocationError::HeapOutOfMemory => "oom_heap",
            AllocationError::MmapOutOfMemory => "oom_mmap",
        });
        w.oom_events.push((tls, step, w.pauses_done));
        if w.spec.cfg.reclaim_cycles && matches!(kind, AllocationError::HeapOutOfMemory) {
            violation(
                "C09",
                "oom-in-reclaimable-program",
                format!(
                    "out_of_memory after {} pauses although the program never holds more than a fixed fraction of the heap (used after GCs with nothing live: {:?})",
                    w.pauses_done, w.hist.empty_heap_used
                ),
            );
        }
    });
    if matches!(kind, AllocationError::MmapOutOfMemory) {
        // The documented contract: the VM is expected to abort.  The run ends here, cleanly.
        with_world(|w| w.count("ended_by_mmap_oom"));
        finish_ok();
    }
}

pub fn on_schedule_finalization() {
    with_world(|w| w.count("schedule_finalization"));
}

pub fn on_post_forwarding() {
    with_world(|w| w.count("post_forwarding"));
}

pub fn on_clear_referent(r: ObjectReference) {
    let h = hdr_of(r);
    with_world(|w| {
        w.pause.cleared.push(h.id);
        // (also remembered across pauses: a reference object that is cleared while unreachable
        // and resurrected later -- through a finalizable object that refers to it -- shows its
        // null referent only in a later pause)
        w.cleared_ever.insert(h.id);
    });
}

pub fn on_enqueue_references(refs: &[ObjectReference]) {
    let ids: Vec<u64> = refs.iter().map(|r| hdr_of(*r).id).collect();
    with_world(|w| {
        for id in ids {
            w.pause.enqueued.push(id);
        }
    });
}

pub fn on_injected_run(seq: u64) {
    with_world(|w| match w.injected_pending.get_mut(&seq) {
        Some(c) if *c == 0 => {
            *c = 1;
            crate::ops2::INJECTED_RUN.fetch_add(1, Ordering::SeqCst);
        }
        Some(c) => {
            let n = *c + 1;
            violation(
                "C15",
                "injected-packet-ran-twice",
                format!("injected packet {} executed {} times", seq, n),
            );
        }
        None => violation(
            "C15",
            "injected-packet-unknown",
            format!("injected packet {} executed but never added", seq),
        ),
    });
}

pub fn new_injected(_parent: u64, _i: u8) -> u64 {
    with_world(|w| {
        w.injected_next += 1;
        let s = w.injected_next;
        w.injected_pending.insert(s, 0);
        s
    })
}


// ---------------------------------------------------------------------------------------------
// Scheduler events (C14 / C15)
// ---------------------------------------------------------------------------------------------

pub fn check_buckets_at_resume(w: &mut World) {
    let b = introspect::buckets(mmtk());
    for bi in b.iter() {
        if bi.stw && (!bi.empty || bi.open) {
            violation(
                "C15",
                "stw-bucket-at-resume",
                format!("at resume of pause {}: STW bucket {} is open={} empty={}", w.pause.n, bi.name, bi.open, bi.empty),
            );
        }
    }
    // every packet added to a STW bucket must have run by now
    for ((_addr, name), v) in w.sched.live.iter() {
        for (seq, stage, pn) in v.iter() {
        let stw = *stage >= 1000 || b.iter().find(|x| x.stage == *stage).map(|x| x.stw).unwrap_or(false);
        if stw {
            violation(
                "C15",
                "packet-not-run",
                format!("at resume of pause {}: packet #{} {} added to stage {} (in pause {}) has not been executed", w.pause.n, seq, name, stage_nm(*stage), pn),
            );
        }
        }
    }
}

fn stage_nm(stage: usize) -> String {
    if stage >= 1000 {
        "designated".into()
    } else {
        introspect::stage_name(stage)
    }
}

fn coarse_state(w: &mut World) {
    let mut h: u64 = w.sched.parked as u64;
    for s in w.sched.open.iter() {
        h |= 1 << (8 + *s as u64);
    }
    h |= (w.pause.active as u64) << 40;
    h |= (w.pause.stopped as u64) << 41;
    h |= ((w.sched.live_count.min(7)) as u64) << 44;
    h |= ((w.sched.in_add.clamp(0, 3)) as u64) << 48;
    w.sched.coarse_states.insert(h);
}

pub struct Obs;
pub static OBS: Obs = Obs;

impl Observer for Obs {
    fn event(&self, tid: usize, _step: u64, kind: u32, a: usize, b: usize, c: usize) {
        with_world(|w| match kind {
            ev::PACKET_ADD => {
                let (stage, name) = w.sched.pending_name.take().unwrap_or((a, "?".into()));
                debug_assert_eq!(stage, a);
                w.sched.next_seq += 1;
                w.sched.added += 1;
                let seq = w.sched.next_seq;
                let pn = if w.pause.active { w.pause.n } else { 0 };
                if !w.pause.active {
                    w.sched.outside_pause_added += 1;
                }
                w.sched.live.entry((c, name.clone())).or_default().push((seq, a, pn));
                w.sched.live_count += 1;
                let _ = b;
                coarse_state(w);
            }
            ev::PACKET_RUN => {
                let name = w.sched.pending_run_name.take().unwrap_or("?".into());
                w.sched.run += 1;
                w.pause.packets_run += 1;
                *w.sched.type_counts.entry(short_type(&name)).or_insert(0) += 1;
                let key = (c, name.clone());
                let popped = match w.sched.live.get_mut(&key) {
                    Some(v) if !v.is_empty() => {
                        let x = v.remove(0);
                        if v.is_empty() {
                            w.sched.live.remove(&key);
                        }
                        w.sched.live_count -= 1;
                        Some(x)
                    }
                    _ => None,
                };
                match popped {
                    Some((seq, stage, _pn)) => {
                        // C15: a packet of a STW stage may only run while its bucket is open and
                        // mutators are stopped.
                        let stw = stage >= 2;
                        if stw && !(w.pause.active && w.pause.stopped) {
                            violation(
                                "C11",
                                "stw-packet-outside-pause",
                                format!("packet #{} {} of stage {} executed while mutators are running", seq, name, stage_nm(stage)),
                            );
                        }
                        if stw && stage < 1000 && !w.sched.open.contains(&stage) {
                            violation(
                                "C15",
                                "packet-before-bucket-open",
                                format!("packet #{} {} of stage {} executed while that bucket is closed", seq, name, introspect::stage_name(stage)),
                            );
                        }
                    }
                    None => violation(
                        "C15",
                        "packet-run-not-added",
                        format!("worker {} executes packet {} that was never added (or already executed)", a, name),
                    ),
                }
                let _ = tid;
                coarse_state(w);
            }
            ev::PACKET_DONE => {}
            ev::BUCKET_OPEN => {
                // C15: a non-first STW bucket opens only while all workers are parked and all
                // earlier enabled STW buckets are empty.
                let first_stw = 2usize;
                if a > first_stw {
                    if w.sched.parked != w.sched.workers {
                        violation(
                            "C15",
                            "bucket-open-workers-running",
                            format!("bucket {} opened while only {}/{} workers are parked", introspect::stage_name(a), w.sched.parked, w.sched.workers),
                        );
                    }
                    for ((_addr, name), v) in w.sched.live.iter() {
                        for (seq, stage, _pn) in v.iter() {
                        if *stage >= first_stw && *stage < a {
                            violation(
                                "C15",
                                "bucket-open-earlier-nonempty",
                                format!("bucket {} opened while packet #{} {} of earlier stage {} is still pending", introspect::stage_name(a), seq, name, stage_nm(*stage)),
                            );
                        }
                        }
                    }
                    let bs = introspect::buckets(mmtk());
                    for bi in bs.iter() {
                        if bi.stw && bi.stage < a && bi.enabled && !(bi.open && bi.empty) {
                            violation(
                                "C15",
                                "bucket-open-out-of-order",
                                format!("bucket {} opened while earlier bucket {} is open={} empty={}", introspect::stage_name(a), bi.name, bi.open, bi.empty),
                            );
                        }
                    }
                }
                if a >= first_stw && !(w.pause.active) {
                    violation(
                        "C15",
                        "bucket-open-outside-gc",
                        format!("STW bucket {} opened outside a pause", introspect::stage_name(a)),
                    );
                }
                w.sched.open.insert(a);
                coarse_state(w);
            }
            ev::BUCKET_CLOSE => {
                w.sched.open.remove(&a);
            }
            ev::WORKER_PARK => {
                w.sched.parked = b;
                coarse_state(w);
            }
            ev::WORKER_UNPARK => {
                w.sched.parked = b;
                coarse_state(w);
            }
            ev::LAST_PARKED => {
                w.sched.last_parked_results[b.min(2)] += 1;
            }
            ev::GOAL_REQUEST => {
                if a == 0 {
                    w.sched.gc_goal_requests += b as u64;
                }
            }
            ev::ADD_ENTER => w.sched.in_add += 1,
            ev::ADD_EXIT => w.sched.in_add -= 1,
            ev::WORKER_EXIT => {}
            _ => {
                crate::events::on_event(w, tid, kind, a, b, c);
            }
        });
    }

    fn event_str(&self, _tid: usize, _step: u64, kind: u32, a: usize, s: &str) {
        #[cfg(any(feature = "var_a", feature = "var_b"))]
        if let Ok(wa) = std::env::var("SIM_WATCH_VO") {
            let wa = usize::from_str_radix(wa.trim_start_matches("0x"), 16).unwrap();
            let addr = unsafe { Address::from_usize(wa) };
            if mmtk::memory_manager::is_mapped_address(addr) {
                let v = mmtk::memory_manager::is_mmtk_object(addr).is_some();
                eprintln!("WATCH vo({:#x})={} at: event {} {} {}", wa, v, kind, a, s);
            }
        }
        with_world(|w| match kind {
            ev::PACKET_ADD => w.sched.pending_name = Some((a, s.to_string())),
            ev::PACKET_RUN => w.sched.pending_run_name = Some(s.to_string()),
            _ => {}
        });
    }

    fn watchdog(&self, step: u64) {
        crate::exec::watchdog(step);
    }

    fn fatal(&self, kind: &str, detail: String) -> ! {
        match kind {
            "deadlock" => violation("C14", "deadlock", detail),
            "livelock-forwarding" => violation("C17", "forwarding-wait-never-ends", detail),
            "step-cap" => crate::exec::on_step_cap(detail),
            "replay-diverged" => harness_error(format!("replay diverged: {}", detail)),
            _ => harness_error(format!("{}: {}", kind, detail)),
        }
    }
}

pub fn short_type(name: &str) -> String {
    // strip generic arguments and module paths: mmtk::a::b::Foo<...> -> Foo
    let base = name.split('<').next().unwrap_or(name);
    base.rsplit("::").next().unwrap_or(base).to_string()
}
