//! The post-pause oracle: heap walk against the shadow graph (C01/C04), weak reference and
//! finalizer semantics (C06), VM weak processing / ephemerons (C13), SATB (C12), retention and
//! the occupied set (C02), quiescent-point probes (C07/C08/C31 via `probes`).

use crate::obj::{self};
use crate::simrt;
use crate::spec::*;
use crate::vm::*;
use crate::world::{check_buckets_at_resume, harness_error, violation, with_world, Ephemeron, SObj, World};
use mmtk::scheduler::GCWorker;
use mmtk::util::verif::introspect::{self, GcInfo};
use mmtk::util::{Address, ObjectReference};
use mmtk::vm::{ObjectTracer, ObjectTracerContext};
use std::collections::{BTreeMap, BTreeSet};
use std::sync::atomic::Ordering;

fn read_slot(slot: usize) -> usize {
    unsafe { Address::from_usize(slot).load::<usize>() }
}

pub fn is_mapped(raw: usize) -> bool {
    raw != 0 && mmtk::memory_manager::is_mapped_address(unsafe { Address::from_usize(raw) })
}

struct Item {
    /// the reference value held by the slot / table entry
    raw: usize,
    expect: u64,
    from: u64,
    slot: usize,
}

/// Walks the real heap in lock-step with the shadow graph.
pub struct Walker {
    pub found: BTreeMap<u64, usize>,
    by_addr: BTreeMap<usize, u64>,
    when: String,
    bytes: u64,
}

impl Walker {
    pub fn new(when: &str) -> Self {
        Walker {
            found: BTreeMap::new(),
            by_addr: BTreeMap::new(),
            when: when.to_string(),
            bytes: 0,
        }
    }

    pub fn roots(&mut self, w: &World) {
        let mut q = Vec::new();
        for m in 0..w.nmut {
            for i in 0..NROOTS {
                let slot = Address::from_ref(&ROOTS_LOCAL[m][i]).as_usize();
                q.push(Item {
                    raw: read_slot(slot),
                    expect: w.lroots[m][i],
                    from: 0,
                    slot,
                });
            }
        }
        for i in 0..NGLOBAL {
            let slot = Address::from_ref(&ROOTS_GLOBAL[i]).as_usize();
            q.push(Item {
                raw: read_slot(slot),
                expect: w.groots[i],
                from: 0,
                slot,
            });
        }
        self.run(w, q, "C01");
    }

    /// Walk from one reference value that must refer to object `expect`.
    pub fn from_value(&mut self, w: &World, raw: usize, expect: u64, from: u64, prop: &str) {
        self.run(
            w,
            vec![Item {
                raw,
                expect,
                from,
                slot: 0,
            }],
            prop,
        );
    }

    fn run(&mut self, w: &World, mut queue: Vec<Item>, prop: &str) {
        let when = self.when.clone();
        while let Some(it) = queue.pop() {
            let raw = it.raw;
            if it.expect == 0 {
                if raw != 0 {
                    violation(
                        prop,
                        "null-slot-changed",
                        format!("{}: slot {:#x} of object {} should be null but holds {:#x}", when, it.slot, it.from, raw),
                    );
                }
                continue;
            }
            if raw == 0 {
                violation(
                    prop,
                    "slot-nulled",
                    format!("{}: slot {:#x} of object {} should refer to object {} but is null", when, it.slot, it.from, it.expect),
                );
            }
            if raw % 8 != 0 || !is_mapped(raw) {
                violation(
                    prop,
                    "slot-unmapped",
                    format!("{}: slot {:#x} of object {} holds {:#x} (expected object {}), not a mapped reference", when, it.slot, it.from, raw, it.expect),
                );
            }
            if let Some(prev) = self.found.get(&it.expect) {
                if *prev != raw {
                    violation(
                        prop,
                        "identity-split",
                        format!("{}: object {} is referred to at both {:#x} and {:#x}", when, it.expect, prev, raw),
                    );
                }
                continue;
            }
            let start = unsafe { Address::from_usize(raw - obj::REF_OFFSET) };
            let h = obj::read_hdr(start);
            let so = match w.objs.get(&it.expect) {
                Some(o) => o,
                None => harness_error(format!("{}: shadow lost object {} (referenced from {})", when, it.expect, it.from)),
            };
            if h.id != it.expect {
                violation(
                    prop,
                    "wrong-referent",
                    format!(
                        "{}: slot {:#x} of object {} holds {:#x} whose header says id {} (tomb {:#x}), expected object {}",
                        when, it.slot, it.from, raw, h.id, h.tomb, it.expect
                    ),
                );
            }
            if h.tomb != 0 {
                violation(
                    prop,
                    "stale-copy",
                    format!("{}: slot {:#x} of object {} refers to the stale from-space copy {:#x} of object {}", when, it.slot, it.from, raw, it.expect),
                );
            }
            if h.size as usize != so.size || h.nrefs as usize != so.nrefs || h.kind != so.kind || h.flags != so.flags {
                violation(
                    prop,
                    "header-corrupt",
                    format!("{}: object {} at {:#x} header {:?} differs from model (size {}, nrefs {}, kind {})", when, it.expect, raw, h, so.size, so.nrefs, so.kind),
                );
            }
            if let Some(bad) = obj::check_payload(start, &h) {
                violation(
                    prop,
                    "payload-corrupt",
                    format!("{}: object {} at {:#x}: payload byte {} corrupted", when, it.expect, raw, bad),
                );
            }
            self.bytes += h.size as u64;
            if let Some(other) = self.by_addr.insert(raw, it.expect) {
                violation(
                    prop,
                    "objects-merged",
                    format!("{}: objects {} and {} both at {:#x}", when, other, it.expect, raw),
                );
            }
            self.found.insert(it.expect, raw);
            let first = if so.kind != obj::KIND_NORMAL { 1 } else { 0 };
            for i in first..so.nrefs {
                let slot = obj::slot_addr(start, i).as_usize();
                queue.push(Item {
                    raw: read_slot(slot),
                    expect: so.fields[i],
                    from: it.expect,
                    slot,
                });
            }
        }
    }
}

/// Check that no two found objects overlap, and return the sorted interval list.
fn check_disjoint(w: &World, found: &BTreeMap<u64, usize>, when: &str) -> Vec<(usize, usize, u64)> {
    let mut iv: Vec<(usize, usize, u64)> = found
        .iter()
        .map(|(id, raw)| {
            let s = raw - obj::REF_OFFSET;
            (s, s + w.objs[id].size, *id)
        })
        .collect();
    iv.sort();
    for p in iv.windows(2) {
        if p[0].1 > p[1].0 {
            violation(
                "C01",
                "objects-overlap",
                format!("{}: object {} [{:#x},{:#x}) overlaps object {} [{:#x},{:#x})", when, p[0].2, p[0].0, p[0].1, p[1].2, p[1].0, p[1].1),
            );
        }
    }
    iv
}

pub fn check_intact(o: &SObj, prop: &str, class: &str, when: &str) {
    if !is_mapped(o.addr) {
        violation(prop, class, format!("{}: object {} at {:#x} is no longer mapped", when, o.id, o.addr));
    }
    let start = unsafe { Address::from_usize(o.addr - obj::REF_OFFSET) };
    let h = obj::read_hdr(start);
    if h.id != o.id || h.size as usize != o.size || h.tomb != 0 {
        violation(prop, class, format!("{}: object {} at {:#x} was overwritten (header now {:?})", when, o.id, o.addr, h));
    }
    if let Some(b) = obj::check_payload(start, &h) {
        violation(prop, class, format!("{}: object {} at {:#x}: payload byte {} corrupted", when, o.id, o.addr, b));
    }
    #[cfg(any(feature = "var_a", feature = "var_b"))]
    if mmtk::memory_manager::is_mmtk_object(unsafe { Address::from_usize(o.addr) }).is_none() {
        violation(prop, class, format!("{}: object {} at {:#x} lost its valid-object bit", when, o.id, o.addr));
    }
}

// ---------------------------------------------------------------------------------------------
// VM-side weak processing (ephemerons) — C13
// ---------------------------------------------------------------------------------------------

fn reachable_now(o: ObjectReference) -> Option<ObjectReference> {
    // The documented protocol: a from-space copy answers "not reachable"; ask for the forwarded
    // object as well.
    if let Some(f) = o.get_forwarded_object() {
        return Some(f);
    }
    if o.is_reachable() {
        Some(o)
    } else {
        None
    }
}

pub fn process_weak_refs(
    worker: &mut GCWorker<SimVM>,
    tracer_context: impl ObjectTracerContext<SimVM>,
) -> bool {
    let mut info = introspect::gc_info(mmtk());
    info.pause = with_world(|w| w.pause.pause_kind);
    let (eph, strong): (Vec<(Ephemeron, bool)>, Vec<(u64, usize)>) = with_world(|w| {
        if !(w.pause.active && w.pause.stopped) {
            violation(
                "C13",
                "weak-outside-pause",
                "process_weak_refs called while mutators are not stopped".into(),
            );
        }
        if w.pause.weak_done {
            violation(
                "C13",
                "weak-called-after-false",
                format!("pause {}: process_weak_refs called again after it returned false", w.pause.n),
            );
        }
        if w.pause.forward_calls > 0 {
            violation(
                "C13",
                "weak-after-forward",
                format!("pause {}: process_weak_refs called after forward_weak_refs", w.pause.n),
            );
        }
        w.pause.weak_rounds += 1;
        // closure-complete oracle (first round): model-strongly-reachable ids must already be
        // reachable.  Nursery pauses only trace the nursery-collected spaces.
        let mut strong = Vec::new();
        if w.pause.weak_rounds == 1 {
            let reach = w.reachable();
            let full = info.nursery != Some(true);
            for id in reach.iter() {
                if let Some(o) = w.objs.get(id) {
                    // Objects allocated during concurrent marking are implicitly live (allocated
                    // black: their lines / treadmill nodes are marked), they are never traced.
                    if w.satb_new.contains(id) {
                        continue;
                    }
                    if full || (o.alloc_pause >= w.pauses_done && matches!(o.sem, SEM_DEFAULT | SEM_LOS)) {
                        strong.push((*id, o.addr));
                    }
                }
            }
        }
        // later rounds: the closure of every value traced in an earlier round of this pause must
        // be complete before process_weak_refs is called again
        if w.pause.weak_rounds > 1 {
            let cur = w.pause.n;
            let seeds: Vec<u64> = w.ephemerons.iter().filter(|e| e.value_traced_in_pause == cur).map(|e| e.value).collect();
            let mut set: BTreeSet<u64> = BTreeSet::new();
            w.close(&mut set, seeds);
            let full = info.nursery != Some(true);
            for id in set.iter() {
                if let Some(o) = w.objs.get(id) {
                    if w.satb_new.contains(id) {
                        continue;
                    }
                    if full || (o.alloc_pause >= w.pauses_done && matches!(o.sem, SEM_DEFAULT | SEM_LOS)) {
                        strong.push((*id, o.addr));
                    }
                }
            }
            w.count("weak_later_round_closure_checks");
        }
        // ImmortalSpace::is_reachable answers false for every immortal object during a nursery GC
        // (the space is re-prepared but not traced), although the API documentation promises
        // `true` for mature objects in nursery GCs.  No listed property covers that query, so the
        // binding works around it: pre-tenured keys count as alive in nursery pauses.
        let nursery = info.nursery == Some(true);
        let eph: Vec<(Ephemeron, bool)> = w
            .ephemerons
            .iter()
            .map(|e| {
                let sem = w.objs.get(&e.key).map(|o| o.sem);
                let pretenured = matches!(sem, Some(SEM_IMMORTAL) | Some(SEM_NONMOVING));
                // An immortal object never dies, so the binding never asks about it: besides
                // nursery pauses, ImmortalSpace::is_reachable is also false at FinalMark for
                // immortal objects allocated while concurrent marking ran (they are not marked
                // at allocation and nothing traces them).
                let immortal = matches!(sem, Some(SEM_IMMORTAL));
                (e.clone(), immortal || (nursery && pretenured))
            })
            .collect();
        (eph, strong)
    });
    for (id, addr) in strong {
        if let Some(o) = obj::raw_to_ref(addr) {
            if reachable_now(o).is_none() {
                // Either process_weak_refs was called too early (C13), or the tracer never gets
                // to this object at all (a missing remembered-set entry, a lost SATB record, a
                // forwarding race: C01/C05/C12/C17).  The end of the pause tells them apart: in the
                // second case the object is lost and the heap-integrity oracles report it.
                with_world(|w| {
                    if w.pause.closure_suspect.is_none() {
                        w.pause.closure_suspect = Some(format!(
                            "process_weak_refs round {}: object id {} at {:#x}, reachable from the roots or from a value traced in an earlier round, was not yet reachable although it did survive the collection: the transitive closure was not complete when process_weak_refs was called",
                            w.pause.weak_rounds, id, addr
                        ));
                    }
                    w.count("closure_suspects");
                });
                break;
            }
        }
    }
    if eph.is_empty() {
        with_world(|w| w.pause.weak_done = true);
        return false;
    }
    // Ephemeron semantics: the value is kept alive iff the key is reachable.
    let cur_pause = with_world(|w| w.pause.n);
    let mut traced: Vec<(usize, usize)> = Vec::new(); // (index, value address returned by the tracer)
    tracer_context.with_tracer(worker, |tracer| {
        for (i, (e, assume_alive)) in eph.iter().enumerate() {
            if e.value_traced_in_pause == cur_pause {
                continue;
            }
            let key = match obj::raw_to_ref(e.key_addr) {
                Some(k) => k,
                None => continue,
            };
            if *assume_alive || reachable_now(key).is_some() {
                if let Some(v) = obj::raw_to_ref(e.value_addr) {
                    let nv = tracer.trace_object(v);
                    traced.push((i, nv.to_raw_address().as_usize()));
                }
            }
        }
    });
    let any = !traced.is_empty();
    with_world(|w| {
        for (i, nv) in traced {
            w.ephemerons[i].value_addr = nv;
            w.ephemerons[i].value_traced_in_pause = cur_pause;
        }
        if any {
            w.count("ephemeron_rounds_that_traced");
            w.pause.weak_traced_rounds += 1;
        } else {
            w.pause.weak_done = true;
        }
    });
    any
}

pub fn forward_weak_refs(
    worker: &mut GCWorker<SimVM>,
    tracer_context: impl ObjectTracerContext<SimVM>,
) {
    let eph = with_world(|w| {
        w.pause.forward_calls += 1;
        if !w.plan.needs_forward {
            violation(
                "C13",
                "forward-unexpected",
                "forward_weak_refs called for a plan that does not need forwarding".into(),
            );
        }
        if !w.pause.weak_done {
            violation(
                "C13",
                "forward-before-weak-done",
                format!("pause {}: forward_weak_refs called before process_weak_refs returned false", w.pause.n),
            );
        }
        w.ephemerons
            .iter()
            .map(|e| {
                let immortal_key = w.objs.get(&e.key).map(|o| o.sem == SEM_IMMORTAL).unwrap_or(false);
                (e.clone(), immortal_key)
            })
            .collect::<Vec<_>>()
    });
    // Forward keys and values of live entries (the tracer returns the final addresses).
    let cur_pause = with_world(|w| w.pause.n);
    let mut upd: Vec<(usize, usize, usize)> = Vec::new();
    tracer_context.with_tracer(worker, |tracer| {
        for (i, (e, immortal_key)) in eph.iter().enumerate() {
            if e.value_traced_in_pause != cur_pause {
                continue; // dead entry: key was not reachable
            }
            let k = obj::raw_to_ref(e.key_addr).unwrap();
            let v = obj::raw_to_ref(e.value_addr).unwrap();
            // An immortal key was taken as alive without asking; it may in fact be unreachable and
            // then was never traced, so it must not be handed to the forwarding trace (which
            // expects marked objects only).  It never moves anyway.
            let nk = if *immortal_key { k } else { tracer.trace_object(k) };
            let nv = tracer.trace_object(v);
            upd.push((i, nk.to_raw_address().as_usize(), nv.to_raw_address().as_usize()));
        }
    });
    with_world(|w| {
        for (i, k, v) in upd {
            w.ephemerons[i].key_fwd = k;
            w.ephemerons[i].value_addr = v;
        }
    });
}

// ---------------------------------------------------------------------------------------------
// Resume
// ---------------------------------------------------------------------------------------------

pub fn on_resume() {
    let mut info = introspect::gc_info(mmtk());
    let step = simrt::step();
    with_world(|w| {
        info.pause = w.pause.pause_kind;
        if !w.pause.active || !w.pause.stopped {
            violation(
                "C11",
                "resume-without-stop",
                format!("resume_mutators called but no stop is in effect (active {} stopped {})", w.pause.active, w.pause.stopped),
            );
        }
        w.last_gc_info = info;
        w.note(format!("resume (pause {}) info {:?} scans {} copies {}", w.pause.n, info, w.pause.scans, w.pause.copies));
        // -- C11: every active mutator's roots scanned exactly once per root-scanning round
        let scans_roots = info.pause != 3 || w.pause.roots_scanned.iter().any(|c| *c > 0);
        if scans_roots && w.plan.collects {
            for m in 0..MAX_MUT {
                if MUT_ACTIVE[m].load(Ordering::SeqCst) && w.pause.roots_scanned[m] != w.plan.root_rounds {
                    violation(
                        "C11",
                        "roots-not-scanned",
                        format!("pause {}: mutator {} roots scanned {} times (expected {})", w.pause.n, m, w.pause.roots_scanned[m], w.plan.root_rounds),
                    );
                }
            }
        }
        // -- C15/C11: all STW buckets empty and closed; no pending STW packet
        check_buckets_at_resume(w);
        // -- C13
        if info.pause != 2 && w.plan.collects {
            let want = if w.plan.needs_forward { 1 } else { 0 };
            if w.pause.forward_calls != want {
                violation(
                    "C13",
                    "forward-count",
                    format!("pause {}: forward_weak_refs called {} times, expected {}", w.pause.n, w.pause.forward_calls, want),
                );
            }
            if w.pause.weak_rounds == 0 {
                violation(
                    "C13",
                    "weak-not-called",
                    format!("pause {}: process_weak_refs was never called", w.pause.n),
                );
            }
            if !w.pause.weak_done {
                violation(
                    "C13",
                    "weak-round-missing",
                    format!("pause {}: process_weak_refs returned true in its last call (round {}) but was not called again", w.pause.n, w.pause.weak_rounds),
                );
            }
        }
        if w.pause.weak_traced_rounds > 1 {
            w.count("weak_multi_round_pauses");
        }
        // -- C18 (mark exactly once): with unique enqueuing, scan_object at most once per object
        //    per trace (MarkCompact / Compressor trace the heap twice by design).
        if cfg!(feature = "var_a") {
            for (id, n) in w.pause.scanned_ids.iter() {
                if *n > w.plan.root_rounds {
                    violation(
                        "C18",
                        "scanned-twice",
                        format!("pause {}: object {} scanned {} times (UNIQUE_OBJECT_ENQUEUING)", w.pause.n, id, n),
                    );
                }
            }
        }
        let when = format!("after pause {}", w.pause.n);
        let found = post_pause_walk(w, &when, info);
        let iv = check_disjoint(w, &found, &when);
        // -- C37
        let moves: Vec<(u64, usize, usize)> = found.iter().map(|(id, raw)| (*id, w.objs[id].addr, *raw)).collect();
        crate::oracle2::check_compressor_order(w, &moves);
        // -- C04 + address refresh
        let mut moved = 0u64;
        for (id, raw) in found.iter() {
            let plan_moves = w.plan.moves;
            let pn = w.pause.n;
            let o = w.objs.get_mut(id).unwrap();
            if o.addr != *raw {
                moved += 1;
                if o.pinned() || matches!(o.sem, SEM_IMMORTAL | SEM_LOS | SEM_NONMOVING) {
                    violation(
                        "C04",
                        "unmovable-moved",
                        format!("object {} (sem {}, pinned {}) moved {:#x} -> {:#x} in pause {}", id, o.sem, o.pinned(), o.addr, raw, pn),
                    );
                }
                if !plan_moves {
                    violation(
                        "C04",
                        "moved-in-nonmoving-plan",
                        format!("object {} moved {:#x} -> {:#x} under a non-moving plan", id, o.addr, raw),
                    );
                }
                o.addr = *raw;
            }
        }
        if moved > 0 {
            w.count_n("objects_moved", moved);
        }
        // pin state must agree with mmtk at quiescence (C18)
        check_pin_states(w, &found);
        // vo bit of every found object (variants with vo_bit)
        #[cfg(any(feature = "var_a", feature = "var_b"))]
        for (id, raw) in found.iter() {
            let a = unsafe { Address::from_usize(*raw) };
            if mmtk::memory_manager::is_mmtk_object(a).is_none() {
                violation(
                    "C01",
                    "live-object-not-valid",
                    format!("after pause {}: live object {} at {:#x} is not an MMTk object (VO bit clear)", w.pause.n, id, raw),
                );
            }
        }
        if info.pause != 2 {
            w.reclaiming_pauses += 1;
        }
        // -- C13: a closure found incomplete at process_weak_refs although nothing was lost
        if let Some(msg) = w.pause.closure_suspect.take() {
            violation("C13", "closure-incomplete", format!("pause {}: {}", w.pause.n, msg));
        }
        settle_after_pause(w, &found, iv, info);
        crate::probes::at_resume(w, &found, info);
        if info.nursery == Some(true) {
            w.count("pauses_nursery");
        } else if info.nursery == Some(false) {
            w.count("pauses_full_gen");
        }
        match info.pause {
            1 => w.count("pauses_conc_full"),
            2 => w.count("pauses_initial_mark"),
            3 => w.count("pauses_final_mark"),
            _ => {}
        }
        if info.emergency {
            w.count("pauses_emergency");
        }
        if info.may_move {
            w.count("pauses_may_move");
        }
        w.pauses_done += 1;
        w.pause.active = false;
        w.pause.stopped = false;
        let _ = step;
    });
}

fn check_pin_states(w: &mut World, found: &BTreeMap<u64, usize>) {
    if !cfg!(any(feature = "var_a", feature = "var_b", feature = "var_c")) {
        return;
    }
    for (id, raw) in found.iter() {
        let o = &w.objs[id];
        if o.pin_ops == 0 {
            continue;
        }
        let bal = o.pins_true as i64 - o.unpins_true as i64;
        if !(0..=1).contains(&bal) {
            violation(
                "C18",
                "pin-count",
                format!("object {}: {} successful pins and {} successful unpins", id, o.pins_true, o.unpins_true),
            );
        }
        let real = mmtk::memory_manager::is_pinned(obj::raw_to_ref(*raw).unwrap());
        if real != (bal == 1) {
            violation(
                "C18",
                "pin-state",
                format!("object {}: is_pinned() = {} but {} successful pins / {} successful unpins were observed", id, real, o.pins_true, o.unpins_true),
            );
        }
    }
}

/// The full post-pause walk: strong roots, then soft / weak references, finalizers, phantom
/// references and ephemerons in mmtk-core's processing order.  Returns id -> address of every
/// object that is legitimately alive.
pub fn post_pause_walk(w: &mut World, when: &str, info: GcInfo) -> BTreeMap<u64, usize> {
    let mut wk = Walker::new(when);
    wk.roots(w);
    w.count_n("walk_objects_strong", wk.found.len() as u64);
    let in_gc = w.pause.active;
    if in_gc && info.pause == 2 {
        // InitialMark: no closure, no reference processing.  The snapshot S that SATB preserves
        // is the *strong* closure; weakly reachable objects are not part of it.
        w.count_n("walk_bytes", wk.bytes);
        return wk.found;
    }
    // Must-clear obligations only after a full-heap stop-the-world trace.
    let must_clear = in_gc && w.plan.collects && info.nursery != Some(true) && matches!(info.pause, 0 | 1);
    let pn = w.pause.n;
    let enq: BTreeMap<u64, u32> = {
        let mut m = BTreeMap::new();
        for id in w.pause.enqueued.iter() {
            *m.entry(*id).or_insert(0) += 1;
        }
        m
    };
    let mut done: Vec<u64> = Vec::new();
    let mut cleared_now: BTreeSet<u64> = BTreeSet::new();
    // ---- soft (retained unless emergency), then weak
    for kind in [obj::KIND_SOFT, obj::KIND_WEAK] {
        loop {
            let mut progress = false;
            let rids: Vec<u64> = w.refs.iter().filter(|(_, r)| r.kind == kind).map(|(k, _)| *k).collect();
            for rid in rids {
                if done.contains(&rid) {
                    continue;
                }
                let Some(raddr) = wk.found.get(&rid).cloned() else { continue };
                let rec = w.refs[&rid].clone();
                let slot = obj::slot_addr(unsafe { Address::from_usize(raddr - obj::REF_OFFSET) }, 0).as_usize();
                let v = read_slot(slot);
                if let Some(taddr) = wk.found.get(&rec.referent) {
                    // referent is alive: must not be cleared, must be forwarded
                    if v != *taddr {
                        violation(
                            "C06",
                            "ref-live-referent-lost",
                            format!("{}: reference object {} (kind {}) holds {:#x} but its live referent {} is at {:#x}", when, rid, kind, v, rec.referent, taddr),
                        );
                    }
                    done.push(rid);
                } else if v == 0 {
                    cleared_now.insert(rid);
                    done.push(rid);
                } else {
                    // retained by mmtk (soft, or not examined in this kind of GC)
                    // (Referents in never-collected spaces are never dead, so references to them
                    // are legitimately kept.)
                    let collectable = w.objs.get(&rec.referent).map(|o| o.sem != SEM_IMMORTAL).unwrap_or(true);
                    if must_clear && kind == obj::KIND_WEAK && collectable {
                        violation(
                            "C06",
                            "weak-not-cleared",
                            format!("{}: weak reference {} still holds {:#x} although its referent {} is not strongly or softly reachable (full-heap GC)", when, rid, v, rec.referent),
                        );
                    }
                    wk.from_value(w, v, rec.referent, rid, "C06");
                    w.count("ref_referent_retained");
                    done.push(rid);
                    progress = true;
                }
            }
            if !progress {
                break;
            }
        }
    }
    // Which reference objects were alive when mmtk-core processed them: soft and weak references
    // are processed before finalization (a dead reference object has its referent cleared
    // without being enqueued, by design), phantom references after it.
    let alive_at_soft_weak: BTreeSet<u64> = wk.found.keys().cloned().collect();
    // ---- finalizers: registered objects that are not reachable now are (or will become) ready
    let fin_ids: Vec<u64> = w.fin_registered.iter().filter(|(_, n)| **n > 0).map(|(k, _)| *k).collect();
    let mut fin_closure: BTreeSet<u64> = BTreeSet::new();
    {
        let mut seeds = Vec::new();
        for id in fin_ids.iter() {
            if !wk.found.contains_key(id) {
                w.fin_unreachable_seen.insert(*id);
            }
        }
        for id in w.fin_unreachable_seen.iter() {
            if w.fin_registered.get(id).cloned().unwrap_or(0) > 0 {
                seeds.push(*id);
            }
        }
        w.close(&mut fin_closure, seeds);
    }
    // ---- phantom
    loop {
        let mut progress = false;
        let rids: Vec<u64> = w.refs.iter().filter(|(_, r)| r.kind == obj::KIND_PHANTOM).map(|(k, _)| *k).collect();
        for rid in rids {
            if done.contains(&rid) {
                continue;
            }
            let Some(raddr) = wk.found.get(&rid).cloned() else { continue };
            let rec = w.refs[&rid].clone();
            let slot = obj::slot_addr(unsafe { Address::from_usize(raddr - obj::REF_OFFSET) }, 0).as_usize();
            let v = read_slot(slot);
            if let Some(taddr) = wk.found.get(&rec.referent) {
                if v != *taddr {
                    violation(
                        "C06",
                        "ref-live-referent-lost",
                        format!("{}: phantom reference {} holds {:#x} but its live referent {} is at {:#x}", when, rid, v, rec.referent, taddr),
                    );
                }
                done.push(rid);
            } else if v == 0 {
                if fin_closure.contains(&rec.referent) && must_clear {
                    // kept alive for finalization: mmtk processes phantom references after
                    // finalization, so it must not have been cleared in this pause.
                    if w.pause.cleared.contains(&rid) {
                        violation(
                            "C06",
                            "phantom-cleared-while-finalizable",
                            format!("{}: phantom reference {} was cleared although its referent {} is kept alive for finalization", when, rid, rec.referent),
                        );
                    }
                }
                cleared_now.insert(rid);
                done.push(rid);
            } else {
                let collectable = w.objs.get(&rec.referent).map(|o| o.sem != SEM_IMMORTAL).unwrap_or(true);
                if must_clear && !fin_closure.contains(&rec.referent) && collectable {
                    violation(
                        "C06",
                        "phantom-not-cleared",
                        format!("{}: phantom reference {} still holds {:#x} although its referent {} is unreachable (full-heap GC)", when, rid, v, rec.referent),
                    );
                }
                wk.from_value(w, v, rec.referent, rid, "C06");
                done.push(rid);
                progress = true;
            }
        }
        if !progress {
            break;
        }
    }
    // ---- enqueue exactly once for every reference cleared by this GC
    if in_gc {
        for rid in w.pause.cleared.clone() {
            if !w.refs.contains_key(&rid) {
                continue;
            }
            let n = enq.get(&rid).cloned().unwrap_or(0);
            let was_alive = match w.refs[&rid].kind {
                obj::KIND_PHANTOM => alive_at_soft_weak.contains(&rid) || fin_closure.contains(&rid),
                _ => alive_at_soft_weak.contains(&rid),
            };
            if was_alive && n != 1 {
                violation(
                    "C06",
                    "cleared-not-enqueued-once",
                    format!("pause {}: reference {} was cleared but enqueued {} times", pn, rid, n),
                );
            }
        }
        for (rid, n) in enq.iter() {
            if let Some(r) = w.refs.get(rid) {
                let was_alive = match r.kind {
                    obj::KIND_PHANTOM => alive_at_soft_weak.contains(rid) || fin_closure.contains(rid),
                    _ => alive_at_soft_weak.contains(rid),
                };
                // (Only after a full-heap trace: a nursery GC may conservatively keep an
                // unreachable reference object alive through the remembered set -- nepotism.)
                if !was_alive && must_clear {
                    violation(
                        "C06",
                        "dead-reference-enqueued",
                        format!("pause {}: reference {} was enqueued although the reference object itself was unreachable", pn, rid),
                    );
                }
            }
            if !w.pause.cleared.contains(rid) {
                violation(
                    "C06",
                    "enqueued-not-cleared",
                    format!("pause {}: reference {} enqueued {} times without being cleared", pn, rid, n),
                );
            }
        }
    }
    for rid in cleared_now.iter() {
        if in_gc && !w.pause.cleared.contains(rid) && !w.cleared_ever.contains(rid) && w.refs.get(rid).map(|r| !r.cleared).unwrap_or(false) {
            violation(
                "C06",
                "referent-nulled-silently",
                format!("{}: referent field of reference {} is null but clear_referent was not called in this pause", when, rid),
            );
        }
        if let Some(r) = w.refs.get_mut(rid) {
            r.cleared = true;
        }
        w.count("refs_cleared");
    }
    // references whose reference object died, and cleared ones, leave the table
    let dead: Vec<u64> = w.refs.iter().filter(|(k, r)| !wk.found.contains_key(k) || r.cleared).map(|(k, _)| *k).collect();
    if in_gc {
        for k in dead {
            w.refs.remove(&k);
        }
    }
    // ---- ephemerons
    if in_gc && !w.ephemerons.is_empty() && info.pause != 2 {
        let cur = w.pause.n;
        let mut model_rounds = 0u32;
        loop {
            let mut progress = false;
            for i in 0..w.ephemerons.len() {
                let e = w.ephemerons[i].clone();
                if e.settled_in_pause == cur {
                    continue;
                }
                // (an immortal key never dies: the binding traces the value without asking, and
                // the model keeps the value alive in the same way, reachable key or not)
                let key_alive = wk.found.get(&e.key).cloned().or_else(|| {
                    w.objs.get(&e.key).filter(|o| o.sem == SEM_IMMORTAL).map(|o| o.addr)
                });
                if let Some(kaddr) = key_alive {
                    // key alive => value alive at the address the tracer reported
                    if e.value_traced_in_pause != cur {
                        violation(
                            "C13",
                            "ephemeron-value-not-traced",
                            format!("{}: ephemeron key {} is reachable but its value {} was never offered for tracing (rounds {})", when, e.key, e.value, w.pause.weak_rounds),
                        );
                    }
                    if w.plan.needs_forward && e.key_fwd != 0 && e.key_fwd != kaddr {
                        violation(
                            "C13",
                            "forwarded-address-wrong",
                            format!("{}: forward_weak_refs tracer returned {:#x} for key {} which is at {:#x}", when, e.key_fwd, e.key, kaddr),
                        );
                    }
                    wk.from_value(w, e.value_addr, e.value, e.key, "C13");
                    w.ephemerons[i].key_addr = kaddr;
                    w.ephemerons[i].settled_in_pause = cur;
                    progress = true;
                }
            }
            if !progress {
                break;
            }
            model_rounds += 1;
        }
        if model_rounds > 1 {
            w.count("ephemeron_chain_pauses");
        }
        // drop entries whose key died
        let n0 = w.ephemerons.len();
        w.ephemerons.retain(|e| e.settled_in_pause == cur);
        if w.ephemerons.len() != n0 {
            w.count_n("ephemerons_dropped", (n0 - w.ephemerons.len()) as u64);
        }
        for e in w.ephemerons.iter_mut() {
            e.key_fwd = 0;
        }
    }
    w.count_n("walk_bytes", wk.bytes);
    w.count_n("walk_objects", wk.found.len() as u64);
    wk.found
}

/// Decide what stays in the model / occupied set after a pause.
fn settle_after_pause(w: &mut World, found: &BTreeMap<u64, usize>, iv: Vec<(usize, usize, u64)>, info: GcInfo) {
    // InitialMark: snapshot; nothing is reclaimed.  Objects reachable now (S) must survive FinalMark.
    if info.pause == 2 {
        w.satb_active = true;
        w.satb_new.clear();
        w.satb_keep = found.keys().cloned().collect();
        if crate::world::watch_id() != 0 {
            let id = crate::world::watch_id();
            for (m, lr) in w.lroots.iter().enumerate() {
                for (i, r) in lr.iter().enumerate() {
                    if *r == id {
                        eprintln!("WATCHID snapshot: held by local root {} of mutator {}", i, m);
                    }
                }
            }
            for (i, r) in w.groots.iter().enumerate() {
                if *r == id {
                    eprintln!("WATCHID snapshot: held by global root {}", i);
                }
            }
            for o in w.objs.values() {
                for (f, v) in o.fields.iter().enumerate() {
                    if *v == id {
                        eprintln!("WATCHID snapshot: held by field {} of object {} ({:#x} {}) reachable={}", f, o.id, o.addr, o.space, found.contains_key(&o.id));
                    }
                }
            }
        }
        w.count("satb_snapshots");
        return;
    }
    if info.pause == 3 {
        // FinalMark: S ∪ N must be intact (C12), whether or not still reachable.
        let keep: Vec<u64> = w.satb_keep.iter().cloned().collect();
        let mut lost_ok = 0u64;
        for id in keep {
            if found.contains_key(&id) {
                continue;
            }
            if let Some(o) = w.objs.get(&id) {
                let part = if w.satb_new.contains(&id) { "allocated during marking" } else { "reachable at the snapshot" };
                check_intact(o, "C12", "satb-object-lost", &format!("after final mark pause {} ({})", w.pause.n, part));
                lost_ok += 1;
            }
        }
        w.count_n("satb_unreachable_but_intact", lost_ok);
        w.count_n("satb_checked", w.satb_keep.len() as u64);
        w.satb_active = false;
        w.satb_keep.clear();
        w.satb_new.clear();
    }
    let ids: Vec<u64> = w.objs.keys().cloned().collect();
    let mut retained: BTreeSet<u64> = BTreeSet::new();
    let mut seeds: Vec<u64> = Vec::new();
    for (id, n) in w.fin_registered.iter() {
        if *n > 0 {
            seeds.push(*id);
        }
    }
    w.close(&mut retained, seeds);
    for id in ids {
        if found.contains_key(&id) {
            continue;
        }
        let o = &w.objs[&id];
        let never_collected = o.sem == SEM_IMMORTAL || !w.plan.collects;
        if never_collected {
            w.immortal_dead.insert(id);
            continue;
        }
        if retained.contains(&id) {
            // kept for finalization: address unknown until popped
            continue;
        }
        w.objs.remove(&id);
    }
    // C04: immortal objects never die: header and payload intact, and they stay occupied
    let dead: Vec<u64> = w.immortal_dead.iter().cloned().collect();
    for id in dead.iter() {
        let o = &w.objs[id];
        check_intact(o, "C04", "immortal-object-lost", &format!("after pause {}", w.pause.n));
    }
    // Rebuild the occupied set: live objects at their (new) addresses + immortal dead ones.
    w.occupied.clear();
    for (s, e, id) in iv {
        w.occupied.insert(s, (e, id));
    }
    for id in dead {
        let o = &w.objs[&id];
        let s = o.addr - obj::REF_OFFSET;
        w.occupied.insert(s, (s + o.size, id));
    }
}

/// End-of-run walk (no pause in effect; all other mutators are parked for good).
pub fn end_of_run_walk(w: &mut World) -> BTreeMap<u64, usize> {
    let info = w.last_gc_info;
    let found = post_pause_walk(w, "at end of run", info);
    check_disjoint(w, &found, "at end of run");
    found
}
