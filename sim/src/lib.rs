pub mod comp;
pub mod events;
pub mod exec;
pub mod gen;
pub mod obj;
pub mod ops2;
pub mod oracle;
pub mod oracle2;
pub mod probes;
pub mod rng;
pub mod simrt;
pub mod spec;
pub mod vm;
pub mod world;

/// Deterministic `getrandom`: std's `RandomState` (HashMap/HashSet seeds) reads it once per
/// thread; mmtk-core iterates `HashSet<ObjectReference>` in the treadmill and the reference
/// processor, so the iteration order must not depend on OS randomness.
///
/// # Safety
/// `buf` must be valid for `len` bytes.
#[no_mangle]
pub unsafe extern "C" fn getrandom(buf: *mut u8, len: usize, _flags: u32) -> isize {
    for i in 0..len {
        *buf.add(i) = (i as u8).wrapping_mul(37).wrapping_add(11);
    }
    len as isize
}
