//! Workload / configuration generator: everything derives from one seed.  The `focus` (a
//! property id) selects a profile: which plans, which operations, which faults.

use crate::rng::Rng;
use crate::simrt::{SchedConfig, Strategy};
use crate::spec::*;
use mmtk::util::verif::rt::site;

pub const PLANS: [&str; 11] = [
    "NoGC",
    "SemiSpace",
    "GenCopy",
    "GenImmix",
    "MarkSweep",
    "PageProtect",
    "Immix",
    "MarkCompact",
    "Compressor",
    "StickyImmix",
    "ConcurrentImmix",
];

const NR: u64 = 16;
const NG: u64 = 12;

fn rr(rng: &mut Rng, g_pct: u64) -> RootRef {
    if rng.chance(g_pct, 100) {
        RootRef { g: true, i: rng.below(NG) as u16 }
    } else {
        RootRef { g: false, i: rng.below(NR) as u16 }
    }
}

pub fn gen_size(rng: &mut Rng, big_pct: u64) -> usize {
    let x = rng.below(100);
    if x < big_pct {
        return if rng.chance(1, 4) { rng.range(65536, 512 * 1024) as usize } else { rng.range(4096, 65536) as usize };
    }
    match rng.below(100) {
        0..=59 => rng.range(32, 256) as usize,
        60..=84 => rng.range(256, 4096) as usize,
        _ => {
            // boundaries: line 256, page 4096, 8K (LOS threshold of copying plans), 16K, 32K (TLAB / block)
            let b = *rng.pick(&[256usize, 1024, 2048, 4096, 8192, 16384, 32768]);
            (b as i64 + rng.range(0, 32) as i64 - 16).max(32) as usize
        }
    }
}

/// Relative weights of the operation kinds.
#[derive(Clone, Debug)]
pub struct Mix {
    pub alloc: u32,
    pub alloc_opt: u32,
    pub write: u32,
    pub load: u32,
    pub copy_region: u32,
    pub drop: u32,
    pub mv: u32,
    pub gc: u32,
    pub poll: u32,
    pub pin: u32,
    pub add_ref: u32,
    pub get_referent: u32,
    pub add_fin: u32,
    pub pop_fin: u32,
    pub ephemeron: u32,
    pub fork: u32,
    pub inject: u32,
    pub probe: u32,
    pub rebind: u32,
    pub yield_: u32,
    pub big_pct: u64,
    pub special_sem_pct: u64,
    pub global_pct: u64,
}

impl Default for Mix {
    fn default() -> Self {
        Mix {
            alloc: 36,
            alloc_opt: 1,
            write: 24,
            load: 10,
            copy_region: 2,
            drop: 9,
            mv: 4,
            gc: 3,
            poll: 1,
            pin: 1,
            add_ref: 2,
            get_referent: 1,
            add_fin: 1,
            pop_fin: 1,
            ephemeron: 1,
            fork: 0,
            inject: 0,
            probe: 0,
            rebind: 0,
            yield_: 2,
            big_pct: 6,
            special_sem_pct: 15,
            global_pct: 25,
        }
    }
}

fn gen_alloc(rng: &mut Rng, m: &Mix) -> Op {
    Op::Alloc {
        size: gen_size(rng, m.big_pct),
        align: if rng.chance(1, 4) { 16 } else { 8 },
        offset: if rng.chance(1, 5) { 8 } else { 0 },
        sem: if rng.chance(m.special_sem_pct, 100) {
            *rng.pick(&[SEM_IMMORTAL, SEM_LOS, SEM_LOS, SEM_NONMOVING, SEM_NONMOVING])
        } else {
            SEM_DEFAULT
        },
        nrefs: match rng.below(10) {
            0 => 0,
            1..=6 => rng.range(1, 4) as u16,
            7 | 8 => rng.range(4, 16) as u16,
            _ => rng.range(16, 64) as u16,
        },
        kind: 0,
        root: rr(rng, m.global_pct),
    }
}

pub fn gen_op(rng: &mut Rng, m: &Mix) -> Op {
    let g = m.global_pct;
    let weights = [
        m.alloc, m.alloc_opt, m.write, m.load, m.copy_region, m.drop, m.mv, m.gc, m.poll, m.pin, m.add_ref,
        m.get_referent, m.add_fin, m.pop_fin, m.ephemeron, m.fork, m.inject, m.probe, m.rebind, m.yield_,
    ];
    let total: u32 = weights.iter().sum();
    let mut x = rng.below(total as u64) as u32;
    let mut k = 0;
    for (i, wgt) in weights.iter().enumerate() {
        if x < *wgt {
            k = i;
            break;
        }
        x -= *wgt;
    }
    match k {
        0 => gen_alloc(rng, m),
        1 => {
            let huge = rng.chance(1, 6);
            Op::AllocOpt {
                size: if huge { *rng.pick(&[usize::MAX / 2, 1 << 40, 1 << 30, 64 << 20]) } else { gen_size(rng, 30) },
                align: 8,
                offset: 0,
                sem: if rng.chance(1, 4) { SEM_LOS } else { SEM_DEFAULT },
                nrefs: rng.below(4) as u16,
                root: rr(rng, g),
                overcommit: rng.chance(1, 2),
                at_safepoint: rng.chance(1, 2),
                oom_call: rng.chance(1, 2),
            }
        }
        2 => Op::Write {
            src: rr(rng, g),
            field: rng.below(64) as u16,
            val: if rng.chance(1, 8) { None } else { Some(rr(rng, g)) },
            mode: rng.below(2) as u8,
        },
        3 => Op::Load { src: rr(rng, g), field: rng.below(64) as u16, dst: rr(rng, g) },
        4 => Op::CopyRegion {
            src: rr(rng, g),
            sstart: rng.below(16) as u16,
            dst: rr(rng, g),
            dstart: rng.below(16) as u16,
            len: rng.range(1, 24) as u16,
            mode: rng.below(2) as u8,
        },
        5 => Op::Drop { root: rr(rng, g) },
        6 => Op::Move { from: rr(rng, g), to: rr(rng, g) },
        7 => Op::Gc { force: true, exhaustive: rng.chance(1, 2) },
        8 => Op::Poll,
        9 => {
            if rng.chance(3, 5) {
                Op::Pin { root: rr(rng, g) }
            } else {
                Op::Unpin { root: rr(rng, g) }
            }
        }
        10 => Op::AddRef { kind: rng.range(1, 3) as u8, referent: rr(rng, g), root: rr(rng, g) },
        11 => Op::GetReferent { src: rr(rng, g), dst: rr(rng, g) },
        12 => Op::AddFinalizer { root: rr(rng, g) },
        13 if rng.chance(1, 4) => Op::FinalizersFor { root: rr(rng, g) },
        13 => Op::PopFinalized { dst: if rng.chance(1, 3) { Some(rr(rng, g)) } else { None } },
        14 => Op::AddEphemeron { key: rr(rng, g), value: rr(rng, g) },
        15 => Op::ForkCycle,
        16 => Op::InjectPackets { n: rng.range(1, 6) as u16, fanout: rng.below(4) as u8 },
        17 => Op::Probe,
        18 => Op::Rebind { flush_first: rng.chance(1, 2) },
        _ => Op::Yield,
    }
}

/// Structured snippets that create the in-flight state a property is about.
fn snippet(rng: &mut Rng, focus: &str, m: &Mix, out: &mut Vec<Op>) {
    let l = |i: u16| RootRef { g: false, i };
    let gl = |i: u16| RootRef { g: true, i };
    match focus {
        // dense survivors: every line of a block keeps a live object next to dead ones, so whole
        // blocks stay fully marked (not reusable) while holding dead objects
        "C07" | "C08" | "C31" | "C34" if (focus != "C34" || rng.chance(1, 3)) && (focus != "C31" || rng.chance(2, 3)) => {
            let n = rng.range(500, 900) as u16;
            let nh = 5u16;
            for h in 0..nh {
                out.push(Op::Alloc { size: 64 + 8 * 64, align: 8, offset: 0, sem: SEM_DEFAULT, nrefs: 64, kind: 0, root: gl(20 + h) });
            }
            let mut kept = 0u16;
            for j in 0..n {
                out.push(Op::Alloc { size: *rng.pick(&[96usize, 112, 128]), align: 8, offset: 0, sem: SEM_DEFAULT, nrefs: 1, kind: 0, root: l(15) });
                if j % 2 == 0 && kept < nh * 32 {
                    // (two adjacent slots per survivor: fields are partitioned between mutators)
                    let holder = gl(20 + kept / 32);
                    for f in 0..2u16 {
                        out.push(Op::Write { src: holder, field: (kept % 32) * 2 + f, val: Some(l(15)), mode: 1 });
                    }
                    kept += 1;
                }
            }
            out.push(Op::Drop { root: l(15) });
            out.push(Op::Gc { force: true, exhaustive: true });
            out.push(Op::Probe);
        }
        // several chunk regions in one space, then free the oldest region (the tail of the list)
        "C28" | "C29" | "C31" => {
            // sometimes one object that needs a region of several chunks
            if rng.chance(1, 3) {
                out.push(Op::Alloc { size: rng.range(5 << 20, 9 << 20) as usize, align: 8, offset: 0, sem: SEM_LOS, nrefs: 2, kind: 0, root: l(7) });
                out.push(Op::Drop { root: l(7) });
                out.push(Op::Gc { force: true, exhaustive: true });
            }
            // sometimes more than two chunks' worth of medium objects in the default space, kept
            // alive as a chain, so that space owns three or more regions
            if focus == "C29" && rng.chance(1, 6) {
                let len = rng.range(1100, 1700);
                out.push(Op::Alloc { size: 8000, align: 8, offset: 0, sem: SEM_DEFAULT, nrefs: 2, kind: 0, root: l(6) });
                for _ in 0..len {
                    out.push(Op::Alloc { size: 8000, align: 8, offset: 0, sem: SEM_DEFAULT, nrefs: 2, kind: 0, root: l(5) });
                    for f in 0..2u16 {
                        out.push(Op::Write { src: l(5), field: f, val: Some(l(6)), mode: 1 });
                    }
                    out.push(Op::Move { from: l(5), to: l(6) });
                }
                out.push(Op::Gc { force: true, exhaustive: true });
                out.push(Op::Drop { root: l(6) });
                out.push(Op::Drop { root: l(5) });
                out.push(Op::Gc { force: true, exhaustive: true });
            }
            let n = rng.range(4, 12) as u16;
            for j in 0..n {
                out.push(Op::Alloc {
                    size: rng.range(600 << 10, 1800 << 10) as usize,
                    align: 8,
                    offset: 0,
                    sem: if rng.chance(4, 5) { SEM_LOS } else { SEM_DEFAULT },
                    nrefs: 2,
                    kind: 0,
                    root: l(8 + j),
                });
            }
            // drop the oldest (first region) or a random subset, collect, allocate again
            let k = rng.range(1, n as u64) as u16;
            for j in 0..k {
                out.push(Op::Drop { root: l(8 + j) });
            }
            out.push(Op::Gc { force: true, exhaustive: rng.chance(1, 2) });
            for j in 0..rng.range(0, 4) as u16 {
                out.push(Op::Alloc { size: rng.range(300 << 10, 1200 << 10) as usize, align: 8, offset: 0, sem: SEM_LOS, nrefs: 1, kind: 0, root: l(8 + j) });
            }
            if rng.chance(1, 2) {
                for j in 0..20u16 {
                    out.push(Op::Drop { root: l(8 + j) });
                }
                out.push(Op::Gc { force: true, exhaustive: true });
            }
        }
        // SATB: an object of the snapshot whose fields are deleted one after the other while
        // marking may be running; every former referent is reachable only through it
        "C12" => {
            let x = if rng.chance(1, 2) { gl(rng.below(NG) as u16) } else { l(rng.below(NR) as u16) };
            let n = rng.range(2, 6) as u16;
            out.push(Op::Alloc { size: 64 + 8 * 8, align: 8, offset: 0, sem: *rng.pick(&[SEM_DEFAULT, SEM_DEFAULT, SEM_NONMOVING, SEM_LOS]), nrefs: 8, kind: 0, root: x });
            for j in 0..n {
                let y = l((j + 3) % 8);
                out.push(Op::Alloc { size: 48, align: 8, offset: 0, sem: SEM_DEFAULT, nrefs: 2, kind: 0, root: y });
                out.push(Op::Write { src: x, field: j, val: Some(y), mode: 1 });
                out.push(Op::Drop { root: y });
            }
            // allocation volume in between (this is what starts concurrent marking)
            for _ in 0..rng.range(0, 12) {
                out.push(gen_alloc(rng, m));
            }
            for j in 0..n {
                out.push(Op::Write { src: x, field: j, val: None, mode: 1 });
                if rng.chance(1, 3) {
                    out.push(gen_alloc(rng, m));
                }
            }
        }
        // remembered *slices*: young objects reachable only through references that a region copy
        // put into an old array (no object-level write to the holder in between)
        "C05" if rng.chance(1, 3) => {
            let holder = if rng.chance(1, 2) { gl(rng.below(NG) as u16) } else { l(rng.below(NR) as u16) };
            out.push(Op::Alloc { size: 64 + 8 * 24, align: 8, offset: 0, sem: *rng.pick(&[SEM_DEFAULT, SEM_DEFAULT, SEM_LOS, SEM_NONMOVING]), nrefs: 24, kind: 0, root: holder });
            out.push(Op::Gc { force: true, exhaustive: rng.chance(1, 3) });
            let src = l(9);
            let n = rng.range(1, 6) as u16;
            out.push(Op::Alloc { size: 64 + 8 * 8, align: 8, offset: 0, sem: SEM_DEFAULT, nrefs: 8, kind: 0, root: src });
            for j in 0..n {
                let y = l(((j + 3) % 6) as u16);
                out.push(Op::Alloc { size: 48, align: 8, offset: 0, sem: SEM_DEFAULT, nrefs: 2, kind: 0, root: y });
                out.push(Op::Write { src, field: j, val: Some(y), mode: rng.below(2) as u8 });
                out.push(Op::Drop { root: y });
            }
            out.push(Op::CopyRegion { src, sstart: 0, dst: holder, dstart: rng.below(8) as u16, len: n, mode: rng.below(2) as u8 });
            out.push(Op::Drop { root: src });
            out.push(Op::Gc { force: true, exhaustive: false });
            out.push(Op::Load { src: holder, field: rng.below(8) as u16, dst: l(1) });
        }
        // old -> young: promote a holder, store fresh young objects into it, drop the young roots
        "C05" | "C17" | "C01" | "C12" => {
            let holder = if rng.chance(1, 2) { gl(rng.below(NG) as u16) } else { l(rng.below(NR) as u16) };
            out.push(Op::Alloc { size: 64 + 8 * 24, align: 8, offset: 0, sem: if rng.chance(1, 5) { SEM_LOS } else { SEM_DEFAULT }, nrefs: 24, kind: 0, root: holder });
            if rng.chance(2, 3) {
                out.push(Op::Gc { force: true, exhaustive: rng.chance(1, 3) });
            }
            for j in 0..rng.range(2, 8) {
                let y = l(((j + 3) % NR) as u16);
                out.push(gen_alloc(rng, m));
                if let Some(Op::Alloc { root, sem, .. }) = out.last_mut() {
                    *root = y;
                    *sem = SEM_DEFAULT;
                }
                if rng.chance(1, 4) {
                    out.push(Op::CopyRegion { src: y, sstart: 0, dst: holder, dstart: j as u16, len: 3, mode: rng.below(2) as u8 });
                }
                out.push(Op::Write { src: holder, field: j as u16, val: Some(y), mode: rng.below(2) as u8 });
                out.push(Op::Drop { root: y });
            }
            // a mutator that goes away between the write and the GC must leave its remembered
            // set behind (destroy_mutator flushes)
            if focus == "C05" && rng.chance(1, 4) {
                out.push(Op::Rebind { flush_first: rng.chance(1, 3) });
            }
            out.push(Op::Gc { force: true, exhaustive: false });
            out.push(Op::Load { src: holder, field: rng.below(8) as u16, dst: l(1) });
        }
        // log-bit neighbours: small old objects allocated back to back (their unlog bits share a
        // byte); each mutator stores fresh young objects into every other one of them, exactly
        // once per nursery cycle, so a barrier that fails to log its object loses the young one
        "C18" if rng.chance(1, 2) => {
            if rng.chance(1, 3) {
                for i in 0..12u16 {
                    // (40 bytes each: two neighbours share a byte of the 1-bit-per-word log table)
                    out.push(Op::Alloc { size: 40, align: 8, offset: 0, sem: SEM_DEFAULT, nrefs: 1, kind: 0, root: gl(16 + i) });
                }
                out.push(Op::Gc { force: true, exhaustive: false });
            }
            let c = rng.below(2) as u16;
            for _ in 0..rng.range(1, 4) {
                for i in 0..6u16 {
                    let g = gl(16 + 2 * i + c);
                    out.push(Op::Alloc { size: 40, align: 8, offset: 0, sem: SEM_DEFAULT, nrefs: 1, kind: 0, root: l(15) });
                    // (fields are partitioned between mutators by object id parity: the objects
                    // of one parity class are all ours or all someone else's; each is written --
                    // and has to be logged -- at most once per cycle)
                    out.push(Op::Write { src: g, field: 0, val: Some(l(15)), mode: rng.below(2) as u8 });
                    out.push(Op::Drop { root: l(15) });
                }
                out.push(Op::Gc { force: true, exhaustive: false });
                out.push(Op::Load { src: gl(16 + c), field: rng.below(4) as u16, dst: l(14) });
            }
        }
        // pin bits of neighbours: small objects allocated back to back, pinned and unpinned by
        // every mutator that runs this
        "C18" | "C04" if rng.chance(1, 3) => {
            if rng.chance(1, 2) {
                for i in 0..6u16 {
                    out.push(Op::Alloc { size: 40, align: 8, offset: 0, sem: SEM_DEFAULT, nrefs: 1, kind: 0, root: gl(i) });
                }
            }
            for _ in 0..rng.range(6, 30) {
                let t = gl(rng.below(6) as u16);
                if rng.chance(3, 5) {
                    out.push(Op::Pin { root: t });
                } else {
                    out.push(Op::Unpin { root: t });
                }
            }
            if rng.chance(1, 2) {
                out.push(Op::Gc { force: true, exhaustive: rng.chance(1, 2) });
            }
        }
        // heavy fan-in: many slots refer to one object
        "C18" => {
            let t = gl(rng.below(NG) as u16);
            out.push(gen_alloc(rng, m));
            if let Some(Op::Alloc { root, sem, .. }) = out.last_mut() {
                *root = t;
                *sem = SEM_DEFAULT;
            }
            for _ in 0..rng.range(2, 6) {
                out.push(Op::Pin { root: t });
                out.push(Op::Write { src: rr(rng, 50), field: rng.below(32) as u16, val: Some(t), mode: rng.below(2) as u8 });
                if rng.chance(1, 2) {
                    out.push(Op::Unpin { root: t });
                }
            }
        }
        "C13" => {
            // ephemeron chain k0 -> v0 = k1 -> v1 = k2 ...
            let depth = rng.range(1, 6) as u16;
            for d in 0..=depth {
                out.push(Op::Alloc { size: 64, align: 8, offset: 0, sem: SEM_DEFAULT, nrefs: 2, kind: 0, root: l(d) });
            }
            let indirect = rng.chance(2, 3);
            for d in 0..depth {
                if indirect {
                    // the value reaches the next key only through a chain of intermediate
                    // objects: the next round must wait for the closure of this value
                    let hops = rng.range(1, 4) as u16;
                    let mut prev = l(d + 1);
                    for h in 0..hops {
                        let t = l(10 + h);
                        out.push(Op::Alloc { size: 64, align: 8, offset: 0, sem: SEM_DEFAULT, nrefs: 4, kind: 0, root: t });
                        // (fields are partitioned between mutators: one of these is ours)
                        for f in 0..4 {
                            out.push(Op::Write { src: t, field: f, val: Some(prev), mode: 1 });
                        }
                        prev = t;
                    }
                    out.push(Op::AddEphemeron { key: l(d), value: prev });
                    for h in 0..hops {
                        out.push(Op::Drop { root: l(10 + h) });
                    }
                } else {
                    out.push(Op::AddEphemeron { key: l(d), value: l(d + 1) });
                }
            }
            for d in 1..=depth {
                out.push(Op::Drop { root: l(d) });
            }
            if rng.chance(1, 3) {
                out.push(Op::Drop { root: l(0) });
            }
            out.push(Op::Gc { force: true, exhaustive: rng.chance(1, 2) });
        }
        "C06" => {
            let t = l(rng.below(NR) as u16);
            let r = l(rng.below(NR) as u16);
            out.push(gen_alloc(rng, m));
            if let Some(Op::Alloc { root, .. }) = out.last_mut() {
                *root = t;
            }
            out.push(Op::AddRef { kind: rng.range(1, 3) as u8, referent: t, root: r });
            if rng.chance(1, 2) {
                out.push(Op::AddFinalizer { root: t });
            }
            if rng.chance(2, 3) {
                out.push(Op::Drop { root: t });
            }
            out.push(Op::Gc { force: true, exhaustive: rng.chance(1, 2) });
            out.push(Op::GetReferent { src: r, dst: l(2) });
            out.push(Op::PopFinalized { dst: None });
        }
        "C09" | "C34" | "C36" => {
            // allocate-drop cycle
            let n = rng.range(4, 40);
            for j in 0..n {
                out.push(gen_alloc(rng, m));
                if let Some(Op::Alloc { root, .. }) = out.last_mut() {
                    *root = l((j % NR) as u16);
                }
            }
            for j in 0..NR {
                if rng.chance(4, 5) {
                    out.push(Op::Drop { root: l(j as u16) });
                }
            }
            out.push(Op::Gc { force: true, exhaustive: true });
        }
        _ => {}
    }
}

pub struct Profile {
    pub plans: Vec<&'static str>,
    pub mix: Mix,
    pub snippet_pct: u64,
    pub shape: &'static str,
}

fn collecting() -> Vec<&'static str> {
    PLANS.iter().cloned().filter(|p| *p != "NoGC").collect()
}

pub fn profile(focus: &str) -> Profile {
    let mut m = Mix::default();
    let mut plans: Vec<&'static str> = PLANS.to_vec();
    let mut snippet_pct = 0;
    let mut shape = "mixed";
    match focus {
        "C01" => {
            snippet_pct = 4;
            m.rebind = 1;
            m.probe = 0;
        }
        "C02" => {
            m.alloc = 55;
            m.rebind = 2;
            m.drop = 14;
            shape = "allocation-heavy, many mutators";
        }
        "C03" => {
            m.alloc = 60;
            m.alloc_opt = 3;
            m.big_pct = 12;
            shape = "allocation arguments with boundary bias";
        }
        "C04" => {
            snippet_pct = 6;
            m.special_sem_pct = 45;
            m.pin = 8;
            m.drop = 14;
            m.gc = 5;
            shape = "non-moving / immortal / pinned objects";
        }
        "C05" => {
            plans = vec!["GenCopy", "GenImmix", "StickyImmix"];
            snippet_pct = 12;
            m.gc = 4;
            m.copy_region = 5;
            shape = "old-to-young chains through the barrier";
        }
        "C06" => {
            plans = collecting();
            snippet_pct = 10;
            m.add_ref = 8;
            m.get_referent = 4;
            m.add_fin = 5;
            m.pop_fin = 5;
            m.gc = 5;
            shape = "reference / finalizer zoo";
        }
        "C07" | "C08" | "C31" => {
            plans = collecting();
            snippet_pct = 3;
            m.probe = 3;
            m.special_sem_pct = 25;
            m.big_pct = 10;
            shape = "quiescent-point probes after exhaustive GCs";
        }
        "C09" => {
            plans = collecting();
            snippet_pct = 30;
            m.gc = 4;
            shape = "allocate-drop cycles";
        }
        "C10" => {
            m.alloc_opt = 25;
            m.alloc = 40;
            m.big_pct = 25;
            m.drop = 4;
            shape = "fill the heap, allocation options";
        }
        "C11" => {
            plans = collecting();
            m.gc = 8;
            m.poll = 3;
            shape = "many mutators requesting GCs";
        }
        "C12" => {
            plans = vec!["ConcurrentImmix"];
            snippet_pct = 6;
            // Concurrent marking starts when more than half the heap has been allocated since the
            // last GC and the heap is not full: allocation volume, no forced GCs, no stress.
            m.gc = 0;
            m.alloc = 45;
            m.big_pct = 25;
            m.drop = 16;
            m.write = 34;
            m.copy_region = 5;
            m.get_referent = 3;
            m.add_ref = 3;
            m.rebind = 1;
            shape = "mutators racing concurrent marking";
        }
        "C13" => {
            plans = collecting();
            snippet_pct = 14;
            m.ephemeron = 6;
            m.gc = 5;
            shape = "ephemeron chains";
        }
        "C14" => {
            plans = collecting();
            m.inject = 4;
            m.gc = 8;
            m.fork = 1;
            shape = "GC requests, injected packets, spurious wake-ups";
        }
        "C15" => {
            plans = collecting();
            m.inject = 5;
            m.gc = 6;
            shape = "packet fan-out";
        }
        "C16" => {
            plans = collecting();
            m.fork = 4;
            m.gc = 5;
            shape = "fork round trips racing GC requests";
        }
        "C17" => {
            plans = vec!["SemiSpace", "GenCopy", "GenImmix", "Immix", "StickyImmix"];
            snippet_pct = 10;
            // (a pinned object is the case where the winner of a forwarding race declines to move)
            m.pin = 3;
            m.write = 34;
            m.gc = 5;
            shape = "heavy fan-in under copying";
        }
        "C18" => {
            plans = vec!["Immix", "StickyImmix", "ConcurrentImmix", "GenImmix", "GenCopy", "SemiSpace", "MarkSweep"];
            snippet_pct = 10;
            m.pin = 10;
            m.global_pct = 50;
            shape = "racing pins / logs / marks on shared objects";
        }
        "C28" | "C29" => {
            plans = collecting();
            snippet_pct = 8;
            m.big_pct = 30;
            m.drop = 16;
            m.gc = 5;
            shape = "large-object churn over several spaces";
        }
        "C34" => {
            plans = vec!["Immix", "StickyImmix", "GenImmix", "ConcurrentImmix"];
            snippet_pct = 25;
            m.gc = 6;
            m.special_sem_pct = 20;
            shape = "many Immix collections (line reuse)";
        }
        "C36" => {
            plans = collecting();
            snippet_pct = 15;
            m.big_pct = 45;
            m.drop = 16;
            m.gc = 5;
            shape = "large-object churn";
        }
        "C37" => {
            plans = vec!["Compressor"];
            m.drop = 16;
            m.gc = 6;
            shape = "compaction";
        }
        "C38" => {
            plans = collecting();
            m.gc = 5;
            m.big_pct = 12;
            shape = "dynamic heap sizing under clock faults";
        }
        _ => {}
    }
    Profile { plans, mix: m, snippet_pct, shape }
}

pub fn gen_program(rng: &mut Rng, nops: usize, focus: &str, p: &Profile) -> Vec<Op> {
    let mut ops = Vec::with_capacity(nops + 32);
    while ops.len() < nops {
        if p.snippet_pct > 0 && rng.chance(p.snippet_pct, 100) {
            snippet(rng, focus, &p.mix, &mut ops);
        } else {
            ops.push(gen_op(rng, &p.mix));
        }
    }
    ops
}

/// C09: allocate up to `budget` bytes, drop every reference, force an exhaustive GC; repeat.
fn gen_cycles(rng: &mut Rng, nops: usize, budget: usize, cap: usize) -> Vec<Op> {
    let mut ops = Vec::new();
    while ops.len() < nops {
        let mut total = 0usize;
        while total < budget {
            let size = if rng.chance(1, 6) { rng.range(8193, cap.max(8200) as u64) as usize } else { rng.range(24, 2048) as usize };
            if total + size > budget {
                break;
            }
            total += size;
            ops.push(Op::Alloc {
                size,
                align: *rng.pick(&[8usize, 8, 16]),
                offset: 0,
                sem: *rng.pick(&[SEM_DEFAULT, SEM_DEFAULT, SEM_DEFAULT, SEM_LOS, SEM_NONMOVING]),
                nrefs: rng.below(6) as u16,
                kind: 0,
                root: RootRef { g: false, i: rng.below(16) as u16 },
            });
            if rng.chance(1, 3) {
                ops.push(Op::Write {
                    src: RootRef { g: false, i: rng.below(16) as u16 },
                    field: rng.below(6) as u16,
                    val: Some(RootRef { g: false, i: rng.below(16) as u16 }),
                    mode: rng.below(2) as u8,
                });
            }
        }
        for i in 0..16u16 {
            ops.push(Op::Drop { root: RootRef { g: false, i } });
        }
        ops.push(Op::Gc { force: true, exhaustive: true });
    }
    ops
}

/// Component simulations (comp.rs): C19 block pool, C20 side metadata, C23 header metadata,
/// C30 mmapper.
fn gen_comp_spec(seed: u64, focus: &str, tier: &str) -> RunSpec {
    let mut rng = Rng::new(seed ^ 0x6161_0000_0000_0000);
    let mut wl = rng.fork(1);
    let mut sr = rng.fork(2);
    let big = tier != "quick";
    let mut comp: Vec<u64> = Vec::new();
    let mut programs: Vec<Vec<Op>> = Vec::new();
    let shape;
    let c = |k: u8, a: u64, b: u64, c: u64| Op::Comp { k, a, b, c };
    match focus {
        "C19" => {
            let nworkers = rng.range(1, 4) as usize;
            let npoppers = rng.range(1, 3) as usize;
            comp.push(nworkers as u64);
            // sometimes overflow the 256-entry thread-local queue
            let overflow = rng.chance(1, 3);
            let mut next_block = 0u64;
            for t in 0..nworkers + npoppers {
                let n = if t < nworkers && overflow { rng.range(300, if big { 900 } else { 600 }) } else { rng.range(20, if big { 400 } else { 150 }) } as usize;
                let mut ops = Vec::new();
                for _ in 0..n {
                    if t < nworkers {
                        match wl.below(if overflow { 12 } else { 10 }) {
                            0..=1 => ops.push(c(2, 0, 0, 0)),
                            2 if wl.chance(1, 4) => ops.push(c(4, 0, 0, 0)),
                            _ => {
                                ops.push(c(1, next_block, 0, 0));
                                next_block += 1;
                            }
                        }
                    } else {
                        match wl.below(20) {
                            0 => ops.push(c(4, 0, 0, 0)),
                            _ => ops.push(c(2, 0, 0, 0)),
                        }
                    }
                }
                programs.push(ops);
            }
            shape = "block pool: worker-local pushes, global pops, flushes";
        }
        "C20" => {
            let log_bits = *rng.pick(&[0u64, 0, 1, 1, 2, 2, 3, 4, 5, 6]);
            // (a metadata-to-data ratio above 1/8 does not fit the reserved side-metadata range)
            let log_region = (*rng.pick(&[3u64, 3, 4, 6, 9, 12])).max(log_bits);
            let nfields = rng.range(8, 96);
            comp = vec![log_bits, log_region, nfields];
            let nthreads = rng.range(2, 4) as usize;
            for _ in 0..nthreads {
                let n = rng.range(20, if big { 600 } else { 200 }) as usize;
                programs.push((0..n).map(|_| c(if wl.chance(1, 5) { wl.range(11, 12) as u8 } else { wl.range(1, 10) as u8 }, wl.below(nfields), wl.next_u64(), 0)).collect());
            }
            shape = "side metadata: neighbouring fields accessed atomically by several threads";
        }
        "C23" => {
            // a random set of non-overlapping header fields around the header address
            let origin = 64u64;
            let mut fields: Vec<(i64, u64)> = Vec::new();
            let mut used = vec![false; 2048];
            let tries = rng.range(6, 40);
            for _ in 0..tries {
                let bits = *rng.pick(&[1u64, 1, 2, 2, 4, 4, 8, 8, 8, 16, 16, 32, 32, 64]);
                // bit offset relative to the header address, between -64*8 and +120*8
                let byte = rng.range(0, 183) as i64 - 64;
                let off = if bits < 8 {
                    // inside one byte
                    byte * 8 + (rng.below(8 / bits) * bits) as i64
                } else {
                    // aligned to its own size
                    let bytes = (bits / 8) as i64;
                    (byte.div_euclid(bytes) * bytes) * 8
                };
                let start = (origin as i64 * 8 + off) as usize;
                if start + bits as usize > used.len() || (start..start + bits as usize).any(|b| used[b]) {
                    continue;
                }
                for b in start..start + bits as usize {
                    used[b] = true;
                }
                fields.push((off, bits));
            }
            if fields.is_empty() {
                fields.push((0, 8));
            }
            fields.sort();
            comp.push(origin);
            comp.push(fields.len() as u64);
            for (o, b) in fields.iter() {
                comp.push((*o + 4096) as u64);
                comp.push(*b);
            }
            comp.push(rng.next_u64());
            let nthreads = rng.range(2, 6) as usize;
            for _ in 0..nthreads {
                let n = rng.range(20, if big { 600 } else { 200 }) as usize;
                programs.push((0..n).map(|_| c(if wl.chance(1, 4) { wl.range(11, 14) as u8 } else { wl.range(1, 10) as u8 }, wl.below(64), wl.next_u64(), 0)).collect());
            }
            shape = "header metadata: bit fields sharing bytes accessed by several threads";
        }
        _ => {
            // C30
            let nthreads = rng.range(1, 4) as usize;
            for t in 0..nthreads {
                let n = rng.range(4, if big { 60 } else { 24 }) as usize;
                programs.push(
                    (0..n)
                        .map(|_| {
                            let k = if t == 0 && wl.chance(1, 3) { 1 } else { 2 };
                            let pages = if wl.chance(1, 2) { wl.range(1, 64) } else { wl.range(512, 6 * 1024) };
                            c(k, wl.below(16), pages, if wl.chance(1, 2) { 0 } else { wl.below(1024) })
                        })
                        .collect(),
                );
            }
            shape = "mmapper: concurrent quarantine / ensure_mapped with failing mmap";
        }
    }
    let strategy = match sr.below(10) {
        0..=4 => Strategy::Random { num: 1, den: *sr.pick(&[2u32, 3, 10]) },
        5..=7 => Strategy::Pct { depth: sr.range(1, 6) as u32, est_steps: 5_000 },
        _ => Strategy::RoundRobin { quantum: sr.range(1, 20) as u32 },
    };
    let faults = focus == "C30" && sr.chance(2, 3);
    let sched = SchedConfig {
        seed: sr.next_u64(),
        strategy,
        step_cap: 6_000_000,
        fair_after_step: u64::MAX,
        spurious_ppm: 0,
        stall_ppm: if sr.chance(1, 3) { 2000 } else { 0 },
        stall_len: sr.range(5, 200) as u32,
        mmap_fault_ppm: if faults { *sr.pick(&[50_000u32, 150_000, 400_000]) } else { 0 },
        mmap_fault_after: if faults { sr.below(6) } else { u64::MAX },
        clock_mode: 0,
        site_mask: site::CLASS_LOCK | site::CLASS_BINDING | site::CLASS_SPIN | site::CLASS_META_RAW | site::CLASS_POOL,
        max_run: *sr.pick(&[50u64, 200, 1000]),
        meta_every: 1,
        race_ppm: 0,
        race_wait: 0,
        explicit: None,
    };
    RunSpec {
        variant: variant_name().to_string(),
        focus: focus.to_string(),
        seed,
        cfg: VmConfig { plan: "comp".into(), comp, ..Default::default() },
        sched,
        programs,
        shape: shape.to_string(),
    }
}

pub fn gen_spec(seed: u64, focus: &str, tier: &str) -> RunSpec {
    if matches!(focus, "C19" | "C20" | "C23" | "C30") {
        return gen_comp_spec(seed, focus, tier);
    }
    let mut rng = Rng::new(seed ^ 0x5151_0000_0000_0000);
    let mut wl = rng.fork(1);
    let mut sr = rng.fork(2);
    // The stop / resume bracket and the bucket protocol of the InitialMark and FinalMark pauses
    // are only reached by allocation-driven concurrent cycles: one run in six of the scheduler
    // protocol checks uses that workload.
    let conc_cycles = matches!(focus, "C11" | "C15" | "C13") && rng.chance(1, 6);
    let mut prof = profile(if conc_cycles { "C12" } else { focus });
    if conc_cycles {
        prof.shape = "concurrent cycles (initial / final mark brackets)";
    }
    let mut plan_choices: Vec<&str> = prof.plans.clone();
    if cfg!(feature = "var_a") {
        // Compressor requires reference == object start
        plan_choices.retain(|p| *p != "Compressor");
    }
    if plan_choices.is_empty() {
        plan_choices = vec!["Immix"];
    }
    let plan = *rng.pick(&plan_choices);
    let workers = match focus {
        "C17" | "C18" | "C14" | "C15" => rng.range(2, 8),
        _ => rng.range(1, 8),
    } as usize;
    let fe = if conc_cycles { "C12" } else { focus };
    let nmut = match fe {
        "C02" | "C11" | "C18" | "C12" => rng.range(2, 4),
        "C37" | "C09" => rng.range(1, 2),
        _ => rng.range(1, 4),
    } as usize;
    let heap_mb = match fe {
        "C10" | "C09" | "C34" => *rng.pick(&[2usize, 4, 8]),
        "C29" | "C28" => *rng.pick(&[16usize, 32, 48]),
        "C12" => *rng.pick(&[2usize, 2, 4]),
        _ => *rng.pick(&[4usize, 8, 16, 32]),
    };
    let nops = match (tier, fe) {
        ("quick", "C34") | ("quick", "C09") | ("quick", "C12") => rng.range(150, 500),
        ("quick", _) => rng.range(50, 250),
        (_, "C34") | (_, "C09") => rng.range(400, 2500),
        _ => rng.range(100, 600),
    } as usize;
    let dynamic = (focus == "C38" && rng.chance(4, 5)) || (focus == "C10" && rng.chance(1, 4));
    let mut cfg = VmConfig {
        plan: plan.to_string(),
        workers,
        heap_bytes: heap_mb << 20,
        dynamic_heap: if dynamic {
            let min = *rng.pick(&[1usize, 2, 4]) << 20;
            Some((min, min * *rng.pick(&[2usize, 4, 16])))
        } else {
            None
        },
        stress_factor: if focus != "C12" && rng.chance(1, 3) { Some(*rng.pick(&[4096usize, 16384, 65536, 262144, 1 << 20])) } else { None },
        nursery: if rng.chance(1, 2) { Some((1 << 20, *rng.pick(&[1usize << 20, 2 << 20, 4 << 20]))) } else { None },
        layout32: if focus == "C29" { true } else if focus == "C31" { rng.chance(1, 8) } else { rng.chance(1, 25) },
        layout32_chunks: if focus == "C29" && rng.chance(1, 3) { rng.range(5, 40) as usize } else { 0 },
        no_finalizer: focus != "C06" && rng.chance(1, 20),
        no_reference_types: focus != "C06" && rng.chance(1, 20),
        full_heap_system_gc: rng.chance(1, 3),
        immix_always_defrag: rng.chance(1, 4),
        immix_defrag_every_block: rng.chance(1, 4),
        defrag_headroom_percent: if rng.chance(1, 4) { Some(*rng.pick(&[1usize, 2, 10, 30])) } else { None },
        count_live_bytes: rng.chance(1, 5),
        disable_concurrent_marking: plan == "ConcurrentImmix" && focus != "C12" && rng.chance(1, 8),
        root_batch: if focus == "C17" { 1 } else { *rng.pick(&[1usize, 2, 8, 64]) },
        write_mode: if focus == "C18" { 0 } else { rng.below(2) as u8 },
        pinning_roots_pct: if rng.chance(1, 4) { 10 } else { 0 },
        tpinning_roots_pct: if rng.chance(1, 6) { 5 } else { 0 },
        final_gcs: if focus == "C06" { 2 } else { 1 },
        ..Default::default()
    };
    let strategy = match sr.below(10) {
        0..=3 => Strategy::Random { num: 1, den: *sr.pick(&[2u32, 10, 50]) },
        4..=6 => Strategy::Pct { depth: sr.range(1, 5) as u32, est_steps: 20_000 },
        7..=8 => Strategy::RoundRobin { quantum: sr.range(1, 200) as u32 },
        _ => Strategy::Sequential,
    };
    let mut mask = site::CLASS_LOCK | site::CLASS_SCHED | site::CLASS_BINDING | site::CLASS_SPIN;
    let want_meta = matches!(focus, "C17" | "C18" | "C05" | "C12" | "C01" | "C37");
    if want_meta || sr.chance(1, 2) {
        mask |= site::CLASS_META_OBJ;
    }
    // the raw primitives underneath (between the load and the CAS of a sub-byte field ...)
    if (want_meta && sr.chance(1, 2)) || sr.chance(1, 8) {
        mask |= site::CLASS_META_RAW;
    }
    if sr.chance(1, 2) {
        mask |= site::CLASS_ALLOC | site::CLASS_POOL;
    }
    let liveness = matches!(focus, "C14" | "C16" | "C11") && sr.chance(1, 2);
    let mut meta_every = *sr.pick(&[1u32, 3, 3, 17, 17, 64]);
    if cfg.stress_factor.is_some() && meta_every == 1 {
        meta_every = 17;
    }
    // the raw sites fire on every metadata access of every thread: thin them, or a run spends its
    // whole step budget there
    if mask & site::CLASS_META_RAW != 0 && meta_every < 17 {
        meta_every = 17;
    }
    let mmap_faults = sr.chance(1, 5);
    let sched = SchedConfig {
        seed: sr.next_u64(),
        strategy,
        step_cap: 6_000_000,
        fair_after_step: if liveness { sr.range(2_000, 200_000) } else { u64::MAX },
        spurious_ppm: if sr.chance(1, 2) { *sr.pick(&[200u32, 2000, 20000]) } else { 0 },
        stall_ppm: if sr.chance(1, 3) { 500 } else { 0 },
        stall_len: sr.range(10, 2000) as u32,
        // a failing mmap ends the run through the documented MmapOutOfMemory call-back; the
        // interesting part is everything mmtk-core did before and on the way there
        mmap_fault_ppm: if matches!(focus, "C10" | "C03" | "C28") && mmap_faults { *sr.pick(&[2_000u32, 20_000, 100_000]) } else { 0 },
        mmap_fault_after: if matches!(focus, "C10" | "C03" | "C28") && mmap_faults { sr.range(5, 60) } else { u64::MAX },
        clock_mode: if focus == "C38" { sr.range(1, 3) as u32 } else { sr.below(4) as u32 },
        site_mask: mask,
        max_run: *sr.pick(&[100u64, 500, 2000]),
        meta_every,
        race_ppm: 0,
        race_wait: 0,
        explicit: None,
    };
    // Race-directed runs (drawn last, so that everything above is unchanged for a given seed):
    // address-carrying sites, the sites inside non-atomic read-modify-writes, and postponement of
    // a thread in front of an address until another thread arrives there.
    let mut sched = sched;
    let race_focus = matches!(focus, "C01" | "C04" | "C05" | "C12" | "C17" | "C18" | "C34" | "C36" | "C37");
    if (race_focus && sr.chance(2, 5)) || (!race_focus && !liveness && sr.chance(1, 12)) {
        sched.site_mask |= site::CLASS_RACE | site::CLASS_META_OBJ | site::CLASS_META_RAW;
        sched.race_ppm = *sr.pick(&[300u32, 3_000, 30_000]);
        sched.race_wait = *sr.pick(&[200u32, 2_000, 20_000]);
        if sched.meta_every < 17 {
            sched.meta_every = 17;
        }
        if focus == "C18" {
            cfg.root_batch = 1;
        }
    }
    // Combinations with a recorded known finding (known_findings.jsonl) are only generated in a
    // small share of runs ("probe runs"), so that they stay demonstrated without drowning
    // everything else.
    cfg.kf_probe = rng.chance(1, 40);
    if !cfg.kf_probe && cfg!(feature = "var_c") && matches!(cfg.plan.as_str(), "StickyImmix" | "MarkCompact") {
        cfg.plan = "Immix".to_string();
    }
    // KF-CONCIMMIX-HEADER-LOGBIT: the SATB barrier is never armed with an in-header log bit.
    if !cfg.kf_probe && cfg!(feature = "var_b") && cfg.plan == "ConcurrentImmix" {
        cfg.plan = "Immix".to_string();
    }
    // An address range smaller than what the plan may need is an illegal configuration for plans
    // that copy during a GC (they panic when to-space pages cannot be had): only non-moving
    // plans run with a range tight enough for chunk requests to fail.
    if cfg.layout32_chunks > 0 && !matches!(cfg.plan.as_str(), "MarkSweep" | "PageProtect") {
        cfg.layout32_chunks = cfg.layout32_chunks.max(3 * (cfg.heap_bytes >> 22) + 8);
    }
    if cfg.plan == "NoGC" {
        // A stress GC under NoGC reaches `unreachable!("GC triggered in nogc")` by design; so does
        // a dynamic heap whose current size is below the allocation budget.
        cfg.stress_factor = None;
        cfg.dynamic_heap = None;
    }
    let mut programs: Vec<Vec<Op>> = (0..nmut).map(|_| gen_program(&mut wl, nops, fe, &prof)).collect();
    if focus == "C09" && rng.chance(4, 5) {
        cfg.reclaim_cycles = true;
        cfg.heap_bytes = *rng.pick(&[4usize, 8, 16]) << 20;
        cfg.dynamic_heap = None;
        if let Some((lo, hi)) = cfg.nursery {
            cfg.nursery = Some((lo.min(cfg.heap_bytes / 4), hi.min(cfg.heap_bytes / 4)));
        }
        let frac = *rng.pick(&[8usize, 6]);
        let budget = cfg.heap_bytes / frac / nmut;
        programs = (0..nmut).map(|_| gen_cycles(&mut wl, nops, budget, cfg.heap_bytes / 32)).collect();
    }
    if !cfg.kf_probe {
        for p in programs.iter_mut() {
            for op in p.iter_mut() {
                if let Op::Alloc { sem, nrefs, .. } = op {
                    // KF-MC-NONMOVING: MarkCompact re-prepares the non-moving space mid-GC.
                    if cfg.plan == "MarkCompact" && *sem == SEM_NONMOVING {
                        *sem = SEM_DEFAULT;
                    }
                    // KF-MSNM-GEN-NURSERY: nursery GCs sweep the mark-sweep non-moving space.
                    // KF-MSNM-CONCIMMIX: no allocate-as-live in the mark-sweep non-moving space.
                    if cfg!(feature = "var_c")
                        && matches!(cfg.plan.as_str(), "GenCopy" | "GenImmix" | "ConcurrentImmix")
                        && *sem == SEM_NONMOVING
                    {
                        *sem = SEM_DEFAULT;
                    }
                    // KF-COMPRESSOR-REFS: references held in immortal / non-moving objects are
                    // not forwarded by the Compressor.
                    if cfg.plan == "Compressor" && matches!(*sem, SEM_IMMORTAL | SEM_NONMOVING) {
                        *nrefs = 0;
                    }
                }
            }
        }
    }
    RunSpec {
        variant: variant_name().to_string(),
        focus: focus.to_string(),
        seed,
        cfg,
        sched,
        programs,
        shape: prof.shape.to_string(),
    }
}
