//! Workload / configuration generator: everything derives from one seed.

use crate::rng::Rng;
use crate::simrt::{SchedConfig, Strategy};
use crate::spec::*;
use mmtk::util::verif::rt::site;

pub const PLANS: [&str; 11] = [
    "NoGC",
    "SemiSpace",
    "GenCopy",
    "GenImmix",
    "MarkSweep",
    "PageProtect",
    "Immix",
    "MarkCompact",
    "Compressor",
    "StickyImmix",
    "ConcurrentImmix",
];

fn rr(rng: &mut Rng, g_pct: u64) -> RootRef {
    if rng.chance(g_pct, 100) {
        RootRef { g: true, i: rng.below(NG) as u16 }
    } else {
        RootRef { g: false, i: rng.below(NR) as u16 }
    }
}

const NR: u64 = 16;
const NG: u64 = 12;

pub fn gen_size(rng: &mut Rng) -> usize {
    match rng.below(100) {
        0..=54 => rng.range(32, 256) as usize,
        55..=79 => rng.range(256, 4096) as usize,
        80..=89 => {
            // boundaries: line 256, page 4096, 8K, 16K, 32K (TLAB/block), LOS thresholds
            let b = *rng.pick(&[256usize, 1024, 2048, 4096, 8192, 16384, 32768]);
            (b as i64 + rng.range(0, 32) as i64 - 16).max(32) as usize
        }
        90..=97 => rng.range(4096, 65536) as usize,
        _ => rng.range(65536, 512 * 1024) as usize,
    }
}

pub fn gen_program(rng: &mut Rng, nops: usize, focus: &str) -> Vec<Op> {
    let mut ops = Vec::with_capacity(nops);
    let g_pct = 25;
    for _ in 0..nops {
        let x = rng.below(100);
        let op = match x {
            0..=39 => Op::Alloc {
                size: gen_size(rng),
                align: if rng.chance(1, 4) { 16 } else { 8 },
                offset: if rng.chance(1, 5) { 8 } else { 0 },
                sem: match rng.below(20) {
                    0 => SEM_IMMORTAL,
                    1 => SEM_LOS,
                    2 | 3 => SEM_NONMOVING,
                    _ => SEM_DEFAULT,
                },
                nrefs: match rng.below(10) {
                    0 => 0,
                    1..=6 => rng.range(1, 4) as u16,
                    7 | 8 => rng.range(4, 16) as u16,
                    _ => rng.range(16, 64) as u16,
                },
                kind: 0,
                root: rr(rng, g_pct),
            },
            40..=64 => Op::Write {
                src: rr(rng, g_pct),
                field: rng.below(64) as u16,
                val: if rng.chance(1, 8) { None } else { Some(rr(rng, g_pct)) },
                mode: rng.below(2) as u8,
            },
            65..=76 => Op::Load {
                src: rr(rng, g_pct),
                field: rng.below(64) as u16,
                dst: rr(rng, g_pct),
            },
            77..=86 => Op::Drop { root: rr(rng, g_pct) },
            87..=90 => Op::Move { from: rr(rng, g_pct), to: rr(rng, g_pct) },
            91..=93 => Op::Gc { force: true, exhaustive: rng.chance(1, 2) },
            94..=95 => Op::Poll,
            _ => Op::Yield,
        };
        ops.push(op);
    }
    let _ = focus;
    ops
}

pub fn gen_spec(seed: u64, focus: &str, tier: &str) -> RunSpec {
    let mut rng = Rng::new(seed ^ 0x5151_0000_0000_0000);
    let mut wl = rng.fork(1);
    let mut sr = rng.fork(2);
    let plan = if cfg!(feature = "var_a") {
        // Compressor requires reference == object start
        loop {
            let p = *rng.pick(&PLANS);
            if p != "Compressor" {
                break p;
            }
        }
    } else {
        *rng.pick(&PLANS)
    };
    let workers = rng.range(1, 8) as usize;
    let nmut = rng.range(1, 4) as usize;
    let heap_mb = *rng.pick(&[4usize, 8, 16, 32]);
    let nops = if tier == "quick" { rng.range(50, 250) } else { rng.range(100, 600) } as usize;
    let cfg = VmConfig {
        plan: plan.to_string(),
        workers,
        heap_bytes: heap_mb << 20,
        stress_factor: if rng.chance(1, 3) { Some(*rng.pick(&[4096usize, 16384, 65536, 262144, 1 << 20])) } else { None },
        nursery: if rng.chance(1, 2) { Some((1 << 20, *rng.pick(&[1usize << 20, 2 << 20, 4 << 20]))) } else { None },
        layout32: rng.chance(1, 10),
        full_heap_system_gc: rng.chance(1, 3),
        immix_always_defrag: rng.chance(1, 4),
        immix_defrag_every_block: rng.chance(1, 4),
        defrag_headroom_percent: if rng.chance(1, 4) { Some(*rng.pick(&[1usize, 2, 10, 30])) } else { None },
        count_live_bytes: rng.chance(1, 5),
        root_batch: *rng.pick(&[1usize, 2, 8, 64]),
        write_mode: rng.below(2) as u8,
        pinning_roots_pct: if rng.chance(1, 4) { 10 } else { 0 },
        tpinning_roots_pct: if rng.chance(1, 6) { 5 } else { 0 },
        final_gcs: 1,
        ..Default::default()
    };
    let strategy = match sr.below(10) {
        0..=3 => Strategy::Random { num: 1, den: *sr.pick(&[2u32, 10, 50]) },
        4..=6 => Strategy::Pct { depth: sr.range(1, 5) as u32, est_steps: 20_000 },
        7..=8 => Strategy::RoundRobin { quantum: sr.range(1, 200) as u32 },
        _ => Strategy::Sequential,
    };
    let mut mask = site::CLASS_LOCK | site::CLASS_SCHED | site::CLASS_BINDING | site::CLASS_SPIN;
    if sr.chance(1, 2) {
        mask |= site::CLASS_META_OBJ;
    }
    if sr.chance(1, 2) {
        mask |= site::CLASS_ALLOC | site::CLASS_POOL;
    }
    let sched = SchedConfig {
        seed: sr.next_u64(),
        strategy,
        step_cap: 6_000_000,
        fair_after_step: u64::MAX,
        spurious_ppm: if sr.chance(1, 2) { *sr.pick(&[200u32, 2000, 20000]) } else { 0 },
        stall_ppm: if sr.chance(1, 3) { 500 } else { 0 },
        stall_len: sr.range(10, 2000) as u32,
        mmap_fault_ppm: 0,
        mmap_fault_after: u64::MAX,
        clock_mode: sr.below(4) as u32,
        site_mask: mask,
        max_run: *sr.pick(&[100u64, 500, 2000]),
        meta_every: *sr.pick(&[1u32, 3, 3, 17, 17, 64]),
        explicit: None,
    };
    let mut cfg = cfg;
    // Combinations with a recorded known finding (known_findings.jsonl) are only generated in a
    // small share of runs ("probe runs"), so that they stay demonstrated without drowning
    // everything else.
    cfg.kf_probe = rng.chance(1, 40);
    if !cfg.kf_probe && cfg!(feature = "var_c") && matches!(cfg.plan.as_str(), "StickyImmix" | "MarkCompact") {
        cfg.plan = "Immix".to_string();
    }
    if cfg.plan == "NoGC" {
        // A stress GC under NoGC reaches `unreachable!("GC triggered in nogc")` by design.
        cfg.stress_factor = None;
    }
    let mut programs: Vec<Vec<Op>> = (0..nmut).map(|_| gen_program(&mut wl, nops, focus)).collect();
    if !cfg.kf_probe {
        for p in programs.iter_mut() {
            for op in p.iter_mut() {
                if let Op::Alloc { sem, nrefs, .. } = op {
                    // KF-MC-NONMOVING: MarkCompact re-prepares the non-moving space mid-GC.
                    if cfg.plan == "MarkCompact" && *sem == SEM_NONMOVING {
                        *sem = SEM_DEFAULT;
                    }
                    // KF-MSNM-GEN-NURSERY: nursery GCs sweep the mark-sweep non-moving space.
                    if cfg!(feature = "var_c")
                        && matches!(cfg.plan.as_str(), "GenCopy" | "GenImmix")
                        && *sem == SEM_NONMOVING
                    {
                        *sem = SEM_DEFAULT;
                    }
                    // KF-COMPRESSOR-REFS: references held in immortal / non-moving objects are
                    // not forwarded by the Compressor.
                    if cfg.plan == "Compressor" && matches!(*sem, SEM_IMMORTAL | SEM_NONMOVING) {
                        *nrefs = 0;
                    }
                }
            }
        }
    }
    RunSpec {
        variant: variant_name().to_string(),
        focus: focus.to_string(),
        seed,
        cfg,
        sched,
        programs,
        shape: "mixed".into(),
    }
}
