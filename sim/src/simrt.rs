//! simrt — the deterministic scheduler.
//!
//! Token passing over real OS threads: exactly one registered thread runs at a time.  Every
//! scheduling point (cooperative yield, failed lock, condvar wait, spin hint, thread exit) hands
//! the token to a thread picked by the strategy from the candidate set.  All choices are either
//! drawn from one PRNG (seeded mode) or read from a recorded sparse list (explicit mode); the run
//! is a pure function of the configuration.

use crate::rng::{fnv_u64, Rng, FNV_INIT};
use mmtk::util::verif::rt::{self, site, SimRuntime};
use serde::{Deserialize, Serialize};
use std::cell::Cell;
use std::collections::BTreeMap;
use std::sync::atomic::{AtomicBool, AtomicUsize, Ordering};
use std::sync::{Mutex, OnceLock};

pub const NO_TID: usize = usize::MAX;

thread_local! {
    static TID: Cell<usize> = const { Cell::new(NO_TID) };
}

pub fn current_tid() -> usize {
    TID.with(|t| t.get())
}

#[derive(Clone, Debug, Serialize, Deserialize, PartialEq)]
#[serde(tag = "kind")]
pub enum Strategy {
    /// At each scheduling point switch with probability num/den to a uniformly drawn candidate.
    Random { num: u32, den: u32 },
    /// PCT-style: random priorities, `depth` priority-change points over `est_steps`.
    Pct { depth: u32, est_steps: u64 },
    /// Round robin with a fixed quantum (in scheduling points).
    RoundRobin { quantum: u32 },
    /// Keep running the current thread; when it blocks pick the lowest tid.  (Default policy of
    /// explicit replays; also useful as a baseline.)
    Sequential,
}

#[derive(Clone, Debug, Serialize, Deserialize, Default)]
pub struct Explicit {
    /// Sparse list of (decision index, chosen thread) that deviate from the default policy
    /// "keep running the current thread, else lowest tid / first waiter".
    pub decisions: Vec<(u64, u32)>,
    /// Faults to fire: (step, kind, arg).
    pub faults: Vec<(u64, u32, u64)>,
}

#[derive(Clone, Debug, Serialize, Deserialize)]
pub struct SchedConfig {
    pub seed: u64,
    pub strategy: Strategy,
    pub step_cap: u64,
    /// Faults and adversarial strategy stop at this step; afterwards Random{1,4}.
    pub fair_after_step: u64,
    /// Probability (per million scheduling points) of a spurious condvar wake-up.
    pub spurious_ppm: u32,
    /// Probability (per million scheduling points) of stalling a thread for `stall_len` steps.
    pub stall_ppm: u32,
    pub stall_len: u32,
    /// Probability (per million mmap calls) of an injected ENOMEM; only after `mmap_fault_after`
    /// mmap calls (so that boot succeeds).
    pub mmap_fault_ppm: u32,
    pub mmap_fault_after: u64,
    /// Clock mode: 0 = small steps, 1 = zero deltas, 2 = huge jumps, 3 = mixed.
    pub clock_mode: u32,
    /// Site-class mask (mmtk::util::verif::rt::site::CLASS_*).
    pub site_mask: u32,
    /// Starvation bound: a thread that has run this many consecutive scheduling points while other
    /// threads were runnable is preempted (mmtk-core has legitimate busy-wait loops that rely on
    /// the OS scheduler being fair).
    #[serde(default = "default_max_run")]
    pub max_run: u64,
    /// Only every n-th META_OBJ / META_RAW site is a scheduling point (1 = all).  Keeps sweeping
    /// loops (one metadata access per cell) from eating the step budget.
    #[serde(default = "default_meta_every")]
    pub meta_every: u32,
    /// Race-directed scheduling (needs `site::CLASS_RACE` in the mask): at an address-carrying
    /// metadata site a thread is, with this probability per million, postponed for up to
    /// `race_wait` steps -- until another thread arrives at a site with the same address.  Then
    /// one of the two is let through first.  Drawn from a PRNG of its own (seeded from `seed`), in
    /// replays too: a function of the seed and the execution so far.
    #[serde(default)]
    pub race_ppm: u32,
    #[serde(default)]
    pub race_wait: u32,
    #[serde(default)]
    pub explicit: Option<Explicit>,
}

fn default_meta_every() -> u32 {
    1
}

fn default_max_run() -> u64 {
    2000
}

impl Default for SchedConfig {
    fn default() -> Self {
        SchedConfig {
            seed: 1,
            strategy: Strategy::Random { num: 1, den: 10 },
            step_cap: 3_000_000,
            fair_after_step: u64::MAX,
            spurious_ppm: 0,
            stall_ppm: 0,
            stall_len: 0,
            mmap_fault_ppm: 0,
            mmap_fault_after: u64::MAX,
            clock_mode: 0,
            site_mask: site::CLASS_LOCK | site::CLASS_SCHED | site::CLASS_BINDING,
            max_run: default_max_run(),
            meta_every: 1,
            race_ppm: 0,
            race_wait: 0,
            explicit: None,
        }
    }
}

/// Fault kinds as recorded in traces.
pub mod faultkind {
    pub const SPURIOUS_WAKE: u32 = 1;
    pub const STALL: u32 = 2;
    pub const MMAP_ENOMEM: u32 = 3;
    pub const NAMES: [&str; 4] = ["", "spurious_wake", "stall", "mmap_enomem"];
}

pub type Pred = Box<dyn Fn() -> bool + Send>;

enum TState {
    Runnable,
    BlockedLock(usize),
    WaitingCv(usize),
    /// Cannot progress until some other thread has made progress since `since`.
    Spinning { since: u64 },
    /// Blocked until the predicate holds (evaluated by the scheduler, no context switch needed).
    BlockedPred(Pred, &'static str),
    Finished,
}

struct ThreadRec {
    name: String,
    state: TState,
    handle: Option<std::thread::Thread>,
    priority: u64,
    stalled_until: u64,
    switches_in: u64,
    /// Step since which this thread has continuously been a candidate without running.
    cand_since: Option<u64>,
    /// Spin hints of the forwarding-word wait loop since this thread last started or finished a
    /// work packet (a waiter that never gets out is a livelock).
    fwd_spins: u64,
    /// Race-directed scheduling: the address this thread is postponed in front of.
    postponed: Option<usize>,
}

#[derive(Default, Clone, Debug, Serialize, Deserialize)]
pub struct SchedStats {
    pub steps: u64,
    pub decisions: u64,
    pub switches: u64,
    pub threads: u64,
    pub faults_fired: BTreeMap<String, u64>,
    pub lock_blocks: u64,
    pub cv_waits: u64,
    pub cv_notifies: u64,
    pub cv_notify_lost: u64,
    pub spin_hints: u64,
    #[serde(default)]
    pub forced_preemptions: u64,
    pub clock_ns: u64,
    pub trace_hash: u64,
    pub switch_hash: u64,
    pub rng_draws: u64,
    pub site_counts: BTreeMap<u32, u64>,
    /// Race-directed scheduling: threads postponed in front of an address / postponed threads
    /// that another thread met at the same address.
    #[serde(default)]
    pub race_postpones: u64,
    #[serde(default)]
    pub race_meets: u64,
}

struct State {
    cfg: SchedConfig,
    threads: Vec<ThreadRec>,
    current: usize,
    rng: Rng,
    clock_rng: Rng,
    race_rng: Rng,
    race_budget: u32,
    race_stall_left: u64,
    step: u64,
    progress: u64,
    decision_idx: u64,
    quantum_left: u32,
    run_len: u64,
    meta_ctr: u64,
    pct_points: Vec<u64>,
    pct_low: u64,
    cv_waiters: BTreeMap<usize, Vec<usize>>,
    clock_ns: u64,
    mmap_calls: u64,
    stats: SchedStats,
    // explicit mode cursors
    exp_dec: BTreeMap<u64, u32>,
    exp_faults: BTreeMap<u64, Vec<(u32, u64)>>,
    // recording
    rec_decisions: Vec<(u64, u32)>,
    rec_faults: Vec<(u64, u32, u64)>,
    finished: bool,
}

/// Call-backs into the harness.
pub trait Observer: Sync + Send {
    fn event(&self, tid: usize, step: u64, kind: u32, a: usize, b: usize, c: usize);
    fn event_str(&self, tid: usize, step: u64, kind: u32, a: usize, s: &str);
    /// Called about every 4096 steps by the running thread; may call `fatal`.
    fn watchdog(&self, step: u64);
    /// Report a fatal condition (deadlock, step cap, replay divergence, panic) and end the process.
    fn fatal(&self, kind: &str, detail: String) -> !;
}

pub struct Sched {
    st: Mutex<State>,
    obs: OnceLock<&'static dyn Observer>,
}

/// A tracer waits for the winner of a forwarding race by polling the forwarding word; the
/// winner needs a bounded number of its own steps to finish.  (The fairness rules hand the
/// token to the longest-waiting thread at every spin hint.)
const FWD_SPIN_LIMIT: u64 = 200_000;

static SCHED: OnceLock<Sched> = OnceLock::new();
static TOKEN: AtomicUsize = AtomicUsize::new(NO_TID);
static IN_FATAL: AtomicBool = AtomicBool::new(false);

fn sched() -> &'static Sched {
    SCHED.get().expect("simrt not initialised")
}

fn wait_token(me: usize) {
    while TOKEN.load(Ordering::Acquire) != me {
        std::thread::park();
    }
}

pub fn in_fatal() -> bool {
    IN_FATAL.load(Ordering::SeqCst)
}

pub fn set_in_fatal() -> bool {
    IN_FATAL.swap(true, Ordering::SeqCst)
}

/// Initialise the scheduler; the calling thread becomes simulated thread 0 ("main").
pub fn init(cfg: SchedConfig, obs: &'static dyn Observer) {
    let mut rng = Rng::new(cfg.seed);
    let clock_rng = rng.fork(0xC10C);
    let mut pct_points = Vec::new();
    if let Strategy::Pct { depth, est_steps } = cfg.strategy {
        for _ in 0..depth {
            pct_points.push(rng.below(est_steps.max(1)));
        }
        pct_points.sort();
    }
    let mut exp_dec = BTreeMap::new();
    let mut exp_faults: BTreeMap<u64, Vec<(u32, u64)>> = BTreeMap::new();
    if let Some(e) = &cfg.explicit {
        for (i, t) in &e.decisions {
            exp_dec.insert(*i, *t);
        }
        for (s, k, a) in &e.faults {
            exp_faults.entry(*s).or_default().push((*k, *a));
        }
    }
    let prio0 = rng.next_u64() | (1 << 63);
    let st = State {
        threads: vec![ThreadRec {
            name: "main".into(),
            state: TState::Runnable,
            handle: Some(std::thread::current()),
            priority: prio0,
            stalled_until: 0,
            switches_in: 0,
            cand_since: None,
            fwd_spins: 0,
            postponed: None,
        }],
        current: 0,
        rng,
        clock_rng,
        race_rng: Rng::new(cfg.seed ^ 0x5ACE_5ACE_0BAD_F00D),
        race_budget: 4000,
        race_stall_left: 600_000,
        step: 0,
        progress: 1,
        decision_idx: 0,
        quantum_left: 0,
        run_len: 0,
        meta_ctr: 0,
        pct_points,
        pct_low: 1 << 40,
        cv_waiters: BTreeMap::new(),
        clock_ns: 1_000_000_000,
        mmap_calls: 0,
        stats: SchedStats {
            trace_hash: FNV_INIT,
            switch_hash: FNV_INIT,
            threads: 1,
            ..Default::default()
        },
        exp_dec,
        exp_faults,
        rec_decisions: Vec::new(),
        rec_faults: Vec::new(),
        finished: false,
        cfg,
    };
    let mask = st.cfg.site_mask;
    let s = Sched {
        st: Mutex::new(st),
        obs: OnceLock::new(),
    };
    let _ = s.obs.set(obs);
    if SCHED.set(s).is_err() {
        panic!("simrt initialised twice");
    }
    TID.with(|t| t.set(0));
    TOKEN.store(0, Ordering::Release);
    rt::install(&RT);
    rt::set_site_mask(mask);
}

pub fn set_site_mask(mask: u32) {
    rt::set_site_mask(mask);
}

/// Spawn a simulated thread.  It becomes runnable immediately but only runs when scheduled.
pub fn spawn<F: FnOnce() + Send + 'static>(name: &str, f: F) -> usize {
    let s = sched();
    let tid;
    {
        let mut st = s.st.lock().unwrap();
        tid = st.threads.len();
        let prio = st.rng.next_u64() | (1 << 63);
        st.threads.push(ThreadRec {
            name: name.to_string(),
            state: TState::Runnable,
            handle: None,
            priority: prio,
            stalled_until: 0,
            switches_in: 0,
            cand_since: None,
            fwd_spins: 0,
            postponed: None,
        });
        st.stats.threads += 1;
    }
    let (tx, rx) = std::sync::mpsc::channel::<std::thread::Thread>();
    std::thread::Builder::new()
        .name(name.to_string())
        .stack_size(8 << 20)
        .spawn(move || {
            TID.with(|t| t.set(tid));
            tx.send(std::thread::current()).unwrap();
            wait_token(tid);
            f();
            finish_current();
        })
        .expect("spawn failed");
    // Wait (really) for the handle; the child parks right after sending it.
    let h = rx.recv().unwrap();
    s.st.lock().unwrap().threads[tid].handle = Some(h);
    tid
}

/// Mark the current thread finished and hand the token on.  Called automatically at the end of a
/// spawned thread's closure.
fn finish_current() {
    let me = current_tid();
    let s = sched();
    let mut st = s.st.lock().unwrap();
    st.threads[me].state = TState::Finished;
    st.progress += 1;
    TID.with(|t| t.set(NO_TID));
    s.reschedule(st, me, site::mk(site::CLASS_BINDING, 0xFFFF), false);
}

pub fn is_finished(tid: usize) -> bool {
    let st = sched().st.lock().unwrap();
    matches!(st.threads[tid].state, TState::Finished)
}

/// Block the calling thread until `pred` holds.  The predicate is evaluated by whichever thread
/// holds the token, so it must only read state that is safe to read from any thread.
pub fn block_until<P: Fn() -> bool + Send + 'static>(what: &'static str, pred: P) {
    let me = current_tid();
    if me == NO_TID {
        while !pred() {
            std::thread::yield_now();
        }
        return;
    }
    if pred() {
        // still a scheduling point
        yield_now(site::mk(site::CLASS_BINDING, 1));
        if pred() {
            return;
        }
    }
    let s = sched();
    let mut st = s.st.lock().unwrap();
    st.threads[me].state = TState::BlockedPred(Box::new(pred), what);
    s.reschedule(st, me, site::mk(site::CLASS_BINDING, 2), true);
}

/// A cooperative scheduling point of the binding/harness (always enabled).
pub fn yield_now(site_id: u32) {
    RT.yield_point(site_id);
}

pub fn step() -> u64 {
    match sched().st.try_lock() {
        Ok(st) => st.step,
        Err(_) => 0,
    }
}

static LAST: Mutex<Option<(SchedStats, Explicit)>> = Mutex::new(None);

fn snapshot(st: &State) -> (SchedStats, Explicit) {
    let mut s = st.stats.clone();
    s.steps = st.step;
    s.clock_ns = st.clock_ns;
    s.rng_draws = st.rng.draws;
    (
        s,
        Explicit {
            decisions: st.rec_decisions.clone(),
            faults: st.rec_faults.clone(),
        },
    )
}

pub fn stats() -> SchedStats {
    let Some(s) = SCHED.get() else {
        return SchedStats::default();
    };
    match s.st.try_lock() {
        Ok(st) => snapshot(&st).0,
        Err(_) => LAST
            .lock()
            .unwrap()
            .clone()
            .map(|x| x.0)
            .unwrap_or_default(),
    }
}

pub fn recorded() -> Explicit {
    let Some(s) = SCHED.get() else {
        return Explicit::default();
    };
    match s.st.try_lock() {
        Ok(st) => snapshot(&st).1,
        Err(_) => LAST
            .lock()
            .unwrap()
            .clone()
            .map(|x| x.1)
            .unwrap_or_default(),
    }
}

pub fn thread_dump() -> String {
    let st = sched().st.lock().unwrap();
    dump_threads(&st)
}

fn dump_threads(st: &State) -> String {
    let mut out = String::new();
    for (i, t) in st.threads.iter().enumerate() {
        let s = match &t.state {
            TState::Runnable => "runnable".to_string(),
            TState::BlockedLock(l) => {
                format!("blocked-on-lock {:#x}", l)
            }
            TState::WaitingCv(c) => format!("waiting-on-condvar {:#x}", c),
            TState::Spinning { since } => format!("spinning(since {})", since),
            TState::BlockedPred(_, w) => format!("blocked-on {}", w),
            TState::Finished => "finished".to_string(),
        };
        out.push_str(&format!("t{}:{}:{}; ", i, t.name, s));
    }
    out
}

/// Forget `cv` waiters and blocked threads — nothing to do; kept for symmetry.
pub fn mark_all_done() {
    sched().st.lock().unwrap().finished = true;
}

impl Sched {
    fn obs(&self) -> &'static dyn Observer {
        *self.obs.get().unwrap()
    }

    fn candidates(&self, st: &mut State, exclude_stalled: bool) -> Vec<usize> {
        let mut v = Vec::with_capacity(st.threads.len());
        // Spinning threads are de-prioritised, not excluded: if nothing else can run (e.g. a
        // spuriously woken worker while every other thread is blocked) a spinner runs again.
        let mut spinners: Vec<usize> = Vec::new();
        let progress = st.progress;
        let step = st.step;
        for i in 0..st.threads.len() {
            let ok = match &st.threads[i].state {
                TState::Runnable => true,
                TState::Spinning { since } => {
                    if *since < progress {
                        true
                    } else {
                        spinners.push(i);
                        false
                    }
                }
                TState::BlockedPred(p, _) => p(),
                _ => false,
            };
            if ok {
                if st.threads[i].cand_since.is_none() {
                    st.threads[i].cand_since = Some(step);
                }
                if exclude_stalled && st.threads[i].stalled_until > step {
                    continue;
                }
                v.push(i);
            } else {
                st.threads[i].cand_since = None;
            }
        }
        if v.is_empty() && !spinners.is_empty() {
            return spinners;
        }
        v
    }

    /// Inject PRNG-driven (or replayed) scheduler-level faults at this step.
    fn inject_faults(&self, st: &mut State) {
        if let Some(_) = st.cfg.explicit {
            if let Some(list) = st.exp_faults.remove(&st.step) {
                for (k, a) in list {
                    match k {
                        faultkind::SPURIOUS_WAKE => self.do_spurious(st, a as usize),
                        faultkind::STALL => {
                            let t = (a >> 32) as usize;
                            let len = a & 0xffff_ffff;
                            if t < st.threads.len() {
                                st.threads[t].stalled_until = st.step + len;
                                self.count_fault(st, k, a);
                            }
                        }
                        _ => {
                            // mmap faults are consumed at the mmap call; put back
                            st.exp_faults.entry(st.step).or_default().push((k, a));
                        }
                    }
                }
            }
            return;
        }
        if st.step >= st.cfg.fair_after_step {
            return;
        }
        if st.cfg.spurious_ppm > 0 && st.rng.below(1_000_000) < st.cfg.spurious_ppm as u64 {
            let waiters: Vec<usize> = (0..st.threads.len())
                .filter(|i| matches!(st.threads[*i].state, TState::WaitingCv(_)))
                .collect();
            if !waiters.is_empty() {
                let t = waiters[st.rng.usize_below(waiters.len())];
                self.do_spurious(st, t);
            }
        }
        if st.cfg.stall_ppm > 0 && st.rng.below(1_000_000) < st.cfg.stall_ppm as u64 {
            let n = st.threads.len();
            let t = st.rng.usize_below(n);
            if !matches!(st.threads[t].state, TState::Finished) {
                let len = st.cfg.stall_len as u64;
                st.threads[t].stalled_until = st.step + len;
                self.count_fault(st, faultkind::STALL, ((t as u64) << 32) | len);
            }
        }
    }

    fn do_spurious(&self, st: &mut State, t: usize) {
        if t >= st.threads.len() {
            return;
        }
        if let TState::WaitingCv(cv) = st.threads[t].state {
            if let Some(w) = st.cv_waiters.get_mut(&cv) {
                w.retain(|x| *x != t);
            }
            st.threads[t].state = TState::Runnable;
            self.count_fault(st, faultkind::SPURIOUS_WAKE, t as u64);
        }
    }

    fn count_fault(&self, st: &mut State, kind: u32, arg: u64) {
        *st.stats
            .faults_fired
            .entry(faultkind::NAMES[kind as usize].to_string())
            .or_insert(0) += 1;
        st.rec_faults.push((st.step, kind, arg));
        fnv_u64(&mut st.stats.trace_hash, 0xFA17 ^ ((kind as u64) << 48) ^ arg);
    }

    /// Make a choice among `cands` (len >= 1).  `default` is what the default policy would pick.
    fn decide(&self, st: &mut State, cands: &[usize], default: usize, drawn: usize) -> usize {
        if cands.len() == 1 {
            return cands[0];
        }
        let idx = st.decision_idx;
        st.decision_idx += 1;
        st.stats.decisions += 1;
        let chosen = if st.cfg.explicit.is_some() {
            match st.exp_dec.get(&idx) {
                Some(t) => {
                    let t = *t as usize;
                    if !cands.contains(&t) {
                        let d = format!(
                            "decision {} at step {}: recorded thread {} not in candidates {:?}",
                            idx, st.step, t, cands
                        );
                        self.fatal_locked(st, "replay-diverged", d);
                    }
                    t
                }
                None => default,
            }
        } else {
            drawn
        };
        if chosen != default {
            st.rec_decisions.push((idx, chosen as u32));
        }
        chosen
    }

    fn fatal_locked(&self, st: &mut State, kind: &str, detail: String) -> ! {
        let dump = dump_threads(st);
        *LAST.lock().unwrap() = Some(snapshot(st));
        let obs = self.obs();
        // The observer will read stats; release our lock by leaking the guard is not possible
        // here (we only have &mut State), so the observer must not call back into simrt.
        obs.fatal(kind, format!("{} || threads: {}", detail, dump))
    }

    /// The heart: called with the state locked by thread `me`, which either wants to continue
    /// (`me` still a candidate) or has blocked/finished.  Picks the next thread, hands over the
    /// token and (unless `me` finished) waits until `me` is scheduled again.
    fn reschedule(
        &self,
        mut st: std::sync::MutexGuard<'_, State>,
        me: usize,
        site_id: u32,
        is_blocking: bool,
    ) {
        st.step += 1;
        let step = st.step;
        if step > st.cfg.step_cap {
            let d = format!("step cap {} exceeded", st.cfg.step_cap);
            self.fatal_locked(&mut st, "step-cap", d);
        }
        *st.stats.site_counts.entry(site_id).or_insert(0) += 1;
        fnv_u64(
            &mut st.stats.trace_hash,
            ((me as u64) << 40) ^ ((site_id as u64) << 8) ^ is_blocking as u64,
        );
        self.inject_faults(&mut st);

        let me_finished = matches!(st.threads[me].state, TState::Finished);
        let mut cands = self.candidates(&mut st, true);
        if cands.is_empty() {
            cands = self.candidates(&mut st, false);
        }
        if cands.is_empty() {
            let all_done = st
                .threads
                .iter()
                .all(|t| matches!(t.state, TState::Finished));
            if all_done {
                // Last thread finished; nothing more to schedule.
                return;
            }
            let d = format!("no runnable thread at step {}", step);
            self.fatal_locked(&mut st, "deadlock", d);
        }
        let me_is_cand = cands.contains(&me);
        // ---- the default policy (deterministic, no PRNG): keep running the current thread, else
        // the lowest tid -- corrected by the fairness rules a real OS scheduler provides, which
        // mmtk-core's busy-wait loops rely on.  Explicit replays record deviations from it.
        let mut default = if me_is_cand { me } else { cands[0] };
        let mut forced = false;
        let oldest_other = |st: &State, bound: Option<u64>| -> Option<usize> {
            let mut oldest: Option<(u64, usize)> = None;
            for c in cands.iter() {
                if *c == me {
                    continue;
                }
                let since = st.threads[*c].cand_since.unwrap_or(step);
                if let Some(b) = bound {
                    if step.saturating_sub(since) <= b {
                        continue;
                    }
                }
                if oldest.map(|(s0, _)| since < s0).unwrap_or(true) {
                    oldest = Some((since, *c));
                }
            }
            oldest.map(|x| x.1)
        };
        if cands.len() > 1 {
            // (1) a spinning thread yields to the longest-waiting other candidate
            if site::class_of(site_id) == site::CLASS_SPIN {
                if let Some(c) = oldest_other(&st, None) {
                    default = c;
                    forced = true;
                }
            }
            // (2) a thread may run at most `max_run` consecutive scheduling points while others wait
            if me_is_cand && default == me {
                st.run_len += 1;
                if st.run_len >= st.cfg.max_run {
                    if let Some(c) = oldest_other(&st, None) {
                        default = c;
                        forced = true;
                        st.stats.forced_preemptions += 1;
                    }
                }
            }
            // (3) a thread that has been runnable for 4 * max_run steps runs now
            if let Some(c) = oldest_other(&st, Some(st.cfg.max_run.saturating_mul(4))) {
                if default != c {
                    default = c;
                    forced = true;
                    st.stats.forced_preemptions += 1;
                }
            }
        }
        if forced && matches!(st.cfg.strategy, Strategy::Pct { .. }) && default != me {
            // keep the beneficiary ahead of the current thread for a while
            let p = st.threads[me].priority.max(st.threads[default].priority);
            st.threads[default].priority = p.saturating_add(1);
        }
        let fair = step >= st.cfg.fair_after_step && st.cfg.explicit.is_none();
        let strategy = if fair {
            Strategy::Random { num: 1, den: 4 }
        } else {
            st.cfg.strategy.clone()
        };
        let drawn = if cands.len() == 1 || st.cfg.explicit.is_some() || forced {
            default
        } else {
            match strategy {
                Strategy::Sequential => default,
                Strategy::Random { num, den } => {
                    if me_is_cand && !(st.rng.below(den as u64) < num as u64) {
                        me
                    } else {
                        cands[st.rng.usize_below(cands.len())]
                    }
                }
                Strategy::RoundRobin { quantum } => {
                    if me_is_cand && st.quantum_left > 0 {
                        st.quantum_left -= 1;
                        me
                    } else {
                        st.quantum_left = quantum;
                        // next candidate after me in cyclic tid order
                        *cands.iter().find(|c| **c > me).unwrap_or(&cands[0])
                    }
                }
                Strategy::Pct { .. } => {
                    while let Some(p) = st.pct_points.first().copied() {
                        if p <= step {
                            st.pct_points.remove(0);
                            st.pct_low -= 1;
                            let low = st.pct_low;
                            st.threads[me].priority = low;
                        } else {
                            break;
                        }
                    }
                    let mut best = cands[0];
                    for c in &cands {
                        if st.threads[*c].priority > st.threads[best].priority {
                            best = *c;
                        }
                    }
                    best
                }
            }
        };
        let next = self.decide(&mut st, &cands, default, drawn);
        if next != me {
            st.run_len = 0;
        }
        st.threads[next].cand_since = None;

        // The chosen thread becomes Runnable (its predicate held / it may stop spinning).
        match st.threads[next].state {
            TState::Spinning { .. } | TState::BlockedPred(..) => {
                st.threads[next].state = TState::Runnable
            }
            _ => {}
        }
        if next == me {
            if step & 0xfff == 0 {
                drop(st);
                self.obs().watchdog(step);
            }
            return;
        }
        st.stats.switches += 1;
        st.threads[next].switches_in += 1;
        fnv_u64(
            &mut st.stats.switch_hash,
            ((site_id as u64) << 32) ^ ((me as u64) << 16) ^ next as u64,
        );
        st.current = next;
        let h = st.threads[next]
            .handle
            .clone()
            .expect("thread handle missing");
        drop(st);
        TOKEN.store(next, Ordering::Release);
        h.unpark();
        if !me_finished {
            wait_token(me);
            if step & 0xfff == 0 {
                self.obs().watchdog(step);
            }
        }
    }
}

struct Rt;
static RT: Rt = Rt;

impl SimRuntime for Rt {
    fn is_sim_thread(&self) -> bool {
        current_tid() != NO_TID && !in_fatal()
    }

    fn yield_point(&self, site_id: u32) {
        let me = current_tid();
        if me == NO_TID || in_fatal() {
            return;
        }
        if crate::world::WORLD_HELD.load(Ordering::SeqCst) != 0 {
            return;
        }
        let s = sched();
        let mut st = s.st.lock().unwrap();
        if site::class_of(site_id) & (site::CLASS_META_OBJ | site::CLASS_META_RAW) != 0 {
            st.meta_ctr += 1;
            if st.meta_ctr % st.cfg.meta_every.max(1) as u64 != 0 {
                return;
            }
        }
        st.progress += 1;
        s.reschedule(st, me, site_id, false);
    }

    fn yield_point_at(&self, site_id: u32, addr: usize) {
        let me = current_tid();
        if me == NO_TID || in_fatal() {
            return;
        }
        if crate::world::WORLD_HELD.load(Ordering::SeqCst) != 0 {
            return;
        }
        let s = sched();
        let mut st = s.st.lock().unwrap();
        if st.cfg.race_ppm == 0 || st.step >= st.cfg.fair_after_step {
            drop(st);
            if site::class_of(site_id) != site::CLASS_RACE {
                self.yield_point(site_id);
            }
            return;
        }
        let step = st.step;
        // (1) is another thread postponed in front of this address?
        let mut met = None;
        for t in 0..st.threads.len() {
            if t != me && st.threads[t].postponed == Some(addr) {
                if st.threads[t].stalled_until > step {
                    met = Some(t);
                } else {
                    st.threads[t].postponed = None;
                }
            }
        }
        if let Some(t) = met {
            st.threads[t].postponed = None;
            st.stats.race_meets += 1;
            *st.stats.faults_fired.entry("race_meet".to_string()).or_insert(0) += 1;
            // one of the two goes first and gets a few steps to finish its access
            let lead = st.race_rng.range(2, 40);
            if st.race_rng.chance(1, 2) {
                st.threads[t].stalled_until = step + lead;
            } else {
                st.threads[t].stalled_until = 0;
                st.threads[me].stalled_until = step + lead;
            }
            fnv_u64(&mut st.stats.trace_hash, 0x5ACE ^ ((t as u64) << 48) ^ addr as u64);
            st.progress += 1;
            s.reschedule(st, me, site_id, false);
            return;
        }
        // (2) postpone this thread here?
        if st.race_budget > 0
            && st.race_stall_left > 0
            && st.threads.len() > 1
            && st.race_rng.below(1_000_000) < st.cfg.race_ppm as u64
        {
            st.race_budget -= 1;
            let wmax = st.cfg.race_wait.max(21) as u64;
            let wait = st.race_rng.range(20, wmax);
            st.race_stall_left = st.race_stall_left.saturating_sub(wait);
            st.threads[me].postponed = Some(addr);
            st.threads[me].stalled_until = step + wait;
            st.stats.race_postpones += 1;
            *st.stats.faults_fired.entry("race_postpone".to_string()).or_insert(0) += 1;
            st.progress += 1;
            s.reschedule(st, me, site_id, false);
            return;
        }
        // (3) an ordinary metadata site
        if site::class_of(site_id) == site::CLASS_RACE {
            return;
        }
        st.meta_ctr += 1;
        if st.meta_ctr % st.cfg.meta_every.max(1) as u64 != 0 {
            return;
        }
        st.progress += 1;
        s.reschedule(st, me, site_id, false);
    }

    fn spin_hint(&self, site_id: u32) {
        let me = current_tid();
        if me == NO_TID || in_fatal() {
            std::thread::yield_now();
            return;
        }
        let s = sched();
        let mut st = s.st.lock().unwrap();
        st.stats.spin_hints += 1;
        if site_id == site::SPIN_FORWARDING {
            st.threads[me].fwd_spins += 1;
            if st.threads[me].fwd_spins > FWD_SPIN_LIMIT {
                let d = format!(
                    "thread {} has polled the forwarding word of one object {} times without leaving its work packet",
                    st.threads[me].name, st.threads[me].fwd_spins
                );
                s.fatal_locked(&mut st, "livelock-forwarding", d);
            }
        }
        let since = st.progress;
        st.threads[me].state = TState::Spinning { since };
        s.reschedule(st, me, site_id, true);
    }

    fn lock_blocked(&self, lock: usize) {
        let me = current_tid();
        if me == NO_TID || in_fatal() {
            std::thread::yield_now();
            return;
        }
        let s = sched();
        let mut st = s.st.lock().unwrap();
        st.stats.lock_blocks += 1;
        st.threads[me].state = TState::BlockedLock(lock);
        s.reschedule(st, me, site::mk(site::CLASS_LOCK, 0x100), true);
    }

    fn lock_released(&self, lock: usize) {
        if current_tid() == NO_TID || in_fatal() {
            return;
        }
        let mut st = sched().st.lock().unwrap();
        st.progress += 1;
        for t in st.threads.iter_mut() {
            if let TState::BlockedLock(l) = t.state {
                if l == lock {
                    t.state = TState::Runnable;
                }
            }
        }
    }

    fn cv_wait(&self, cv: usize) {
        let me = current_tid();
        if me == NO_TID || in_fatal() {
            return;
        }
        let s = sched();
        let mut st = s.st.lock().unwrap();
        st.stats.cv_waits += 1;
        st.progress += 1;
        st.threads[me].state = TState::WaitingCv(cv);
        st.cv_waiters.entry(cv).or_default().push(me);
        s.reschedule(st, me, site::mk(site::CLASS_LOCK, 0x101), true);
    }

    fn cv_notify(&self, cv: usize, all: bool) {
        if current_tid() == NO_TID || in_fatal() {
            return;
        }
        let s = sched();
        let mut st = s.st.lock().unwrap();
        st.stats.cv_notifies += 1;
        st.progress += 1;
        let waiters = st.cv_waiters.get(&cv).cloned().unwrap_or_default();
        if waiters.is_empty() {
            st.stats.cv_notify_lost += 1;
            return;
        }
        if all {
            for w in &waiters {
                st.threads[*w].state = TState::Runnable;
            }
            st.cv_waiters.remove(&cv);
        } else {
            let drawn = if st.cfg.explicit.is_some() || waiters.len() == 1 {
                waiters[0]
            } else {
                waiters[st.rng.usize_below(waiters.len())]
            };
            let w = s.decide(&mut st, &waiters, waiters[0], drawn);
            st.threads[w].state = TState::Runnable;
            st.cv_waiters.get_mut(&cv).unwrap().retain(|x| *x != w);
        }
    }

    fn event(&self, kind: u32, a: usize, b: usize, c: usize) {
        let me = current_tid();
        if in_fatal() {
            return;
        }
        let s = sched();
        let step = {
            let mut st = s.st.lock().unwrap();
            if (kind == rt::ev::PACKET_RUN || kind == rt::ev::PACKET_DONE) && me != NO_TID {
                st.threads[me].fwd_spins = 0;
            }
            // `c` of packet events is an opaque identity (a heap address): never hashed.
            let c_h = if kind <= rt::ev::PACKET_DONE { 0 } else { c as u64 };
            fnv_u64(
                &mut st.stats.trace_hash,
                ((kind as u64) << 56) ^ (a as u64).rotate_left(17) ^ (b as u64).rotate_left(31) ^ c_h,
            );
            st.step
        };
        s.obs().event(me, step, kind, a, b, c);
    }

    fn event_str(&self, kind: u32, a: usize, sv: &str) {
        let me = current_tid();
        if in_fatal() {
            return;
        }
        let s = sched();
        let step = {
            let mut st = s.st.lock().unwrap();
            let mut h = st.stats.trace_hash;
            crate::rng::fnv1a(&mut h, sv.as_bytes());
            fnv_u64(&mut h, ((kind as u64) << 56) ^ a as u64);
            st.stats.trace_hash = h;
            st.step
        };
        s.obs().event_str(me, step, kind, a, sv);
    }

    fn fault(&self, kind: u32, arg: usize) -> bool {
        if current_tid() == NO_TID || in_fatal() {
            return false;
        }
        if kind != rt::fault::MMAP {
            return false;
        }
        let s = sched();
        let mut st = s.st.lock().unwrap();
        st.mmap_calls += 1;
        let fire = if st.cfg.explicit.is_some() {
            let step = st.step;
            let mut hit = false;
            if let Some(list) = st.exp_faults.get_mut(&step) {
                if let Some(pos) = list.iter().position(|(k, _)| *k == faultkind::MMAP_ENOMEM) {
                    list.remove(pos);
                    hit = true;
                }
            }
            hit
        } else {
            st.cfg.mmap_fault_ppm > 0
                && st.mmap_calls > st.cfg.mmap_fault_after
                && st.step < st.cfg.fair_after_step
                && st.rng.below(1_000_000) < st.cfg.mmap_fault_ppm as u64
        };
        if fire {
            s.count_fault(&mut st, faultkind::MMAP_ENOMEM, arg as u64);
        }
        fire
    }

    fn now_ns(&self) -> u64 {
        if in_fatal() {
            return 0;
        }
        let mut st = sched().st.lock().unwrap();
        let mode = match st.cfg.clock_mode {
            3 => st.clock_rng.below(3) as u32,
            m => m,
        };
        let delta = match mode {
            0 => 1_000 + st.clock_rng.below(2_000_000),
            1 => {
                if st.clock_rng.chance(9, 10) {
                    0
                } else {
                    1 + st.clock_rng.below(10)
                }
            }
            _ => {
                if st.clock_rng.chance(1, 4) {
                    3_600_000_000_000 * (1 + st.clock_rng.below(48))
                } else {
                    st.clock_rng.below(1_000)
                }
            }
        };
        st.clock_ns = st.clock_ns.saturating_add(delta);
        st.clock_ns
    }
}
