#!/bin/bash
cd /verif/sim
for v in a b c; do V=$(echo $v | tr a-z A-Z); cargo build --offline --features var_$v --target-dir /verif/target/$V 2>&1 | grep -E "^(error)" -A12 | head -30 & done; wait
