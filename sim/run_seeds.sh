#!/bin/bash
# usage: run_seeds.sh <variant> <from> <to> [focus] [tier]
V=$1; A=$2; B=$3; F=${4:-C01}; T=${5:-quick}
for s in $(seq $A $B); do timeout 20 /verif/target/$V/debug/syssim --seed $s --focus $F --tier $T | python3 -c "
import json,sys
t=sys.stdin.read()
try:
  o=json.loads(t)
  print(o['seed'],o['plan'],o['status'],o['class'],o['message'][:400],'pauses',o['pauses'],'steps',o['sched']['steps'])
except Exception as e: print('$s','NOOUT',t[:200])"; done
