#!/bin/bash
# mutgroup2.sh <group dir>: second-round seeded changes (out2/) against the quick check of their property
g=$1
for d in $g/out2/*/; do
  id=$(basename $d)
  prop=${id%%_*}
  if [ -f $g/r2_$id.txt ] && grep -q '^{' $g/r2_$id.txt; then continue; fi
  [ -f $d/patch.diff ] || continue
  python3 /verif/tools/mutant.py $g/wt $d/patch.diff $prop > $g/r2_$id.txt 2>&1
done
echo done > $g/ALLDONE_r2
