#!/usr/bin/env python3
"""batch.py <prop> <n> [tier]: run n seeds, print every non-ok outcome (for triage)."""
import sys, os, json
sys.path.insert(0, os.path.dirname(os.path.abspath(__file__)))
sys.path.insert(0, os.path.dirname(os.path.dirname(os.path.abspath(__file__))))
import check, simlib
prop, n = sys.argv[1], int(sys.argv[2]); tier = sys.argv[3] if len(sys.argv) > 3 else "quick"
os.environ["VERIF_RUNS"] = str(n)
res, wall = check.run_batch(prop, tier, int(os.environ.get("VERIF_SEED", "1")))
known = check.load_known()
import collections
c = collections.Counter()
for o in res:
    k = check.known_match(o, known, prop) if o.get("status") == "violation" else None
    key = (o.get("status"), o.get("class"), k["id"] if k else None)
    c[key] += 1
    if o.get("status") != "ok" and not k:
        print(o["_variant"], o["_seed"], o.get("plan"), o.get("status"), o.get("class"), (o.get("message") or "")[:260], "steps", o.get("sched", {}).get("steps"))
print(wall, dict(c))
