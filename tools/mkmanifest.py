#!/usr/bin/env python3
"""Regenerate /verif/MANIFEST.json from the check table in check.py and the texts below."""
import json
import os
import subprocess
import sys

HERE = os.path.dirname(os.path.abspath(__file__))
VERIF = os.path.dirname(HERE)
sys.path.insert(0, VERIF)
sys.path.insert(0, HERE)
import check  # noqa: E402

ALL = ["C%02d" % i for i in range(1, 41)]

PURE = {
    "C22": "find_prev/next_non_zero_value and scan_non_zero_values are pure functions of the metadata bytes and the "
           "search range: no schedule, clock, fault or interleaving enters the statement, so a simulator adds nothing over "
           "input generation (the brief asks for not-applicable rather than dressing input generation as simulation)",
    "C24": "address ranges of side-metadata specs are compile-time/constructor arithmetic of one configuration; no "
           "schedule, time, I/O or fault is involved",
    "C25": "the sanity check is a deterministic function of the set of specs handed to it at plan creation; nothing "
           "concurrent or fault-dependent",
    "C32": "SpaceDescriptor encode/decode is pure bit arithmetic",
    "C33": "alignment and size helpers are pure arithmetic",
    "C35": "size-class selection and fresh-block free-list layout are pure functions of (size, align) / block address",
    "C39": "option parsing and validation are pure string functions; set_from_string has no concurrency, time or I/O",
    "C40": "RevisitableGroupBy is a pure sequential iterator adaptor",
}

# claimed-but-unbuilt explanations are in NOT_BUILT; everything else in check.PROPS is claimed.
NOT_BUILT = {}

LEVEL_TEXT = {
    "default": "seeded search over schedules, workloads, configurations and faults of the real mmtk-core running inside one "
               "process per run under a token scheduler that decides every context switch at the instrumented sites; the "
               "property is evaluated by oracles during the run and over the recorded history. Sampling, not enumeration: a "
               "clean batch is evidence, not proof. This is the strongest level the technique family offers for a property "
               "that quantifies over schedules and programs of a whole collector.",
}

NOTE = ("trusted base: the SimVM binding and shadow-heap model in /verif/sim, the token scheduler (context switches only at "
        "the cfg(mmtk_verif) hook sites: lock/condvar/rwlock shims, scheduler/monitor/bucket sites, side-metadata and "
        "forwarding-word sites, allocator slow path), sequential consistency (one thread runs at a time), the simulated clock. "
        "mmtk-core's own debug assertions are enabled and count as oracles.")

NOTE_COMP = ("trusted base: the component harness and its sequential reference model in /verif/sim/src/comp.rs, the token "
             "scheduler (context switches at the cfg(mmtk_verif) yield points inside the raw metadata accessors, the block "
             "queue and pool, and the lock shims), sequential consistency. The callers are generated operation sequences that "
             "respect the component's documented contract (single writer per field; no flush while a push is in flight; no "
             "quarantine of an already quarantined chunk).")
TECH_COMP = ("deterministic simulation of one component: simulated threads under a seeded token scheduler (plus injected mmap "
             "failures for the mmapper) against a sequential reference model")

TECH = {
    "default": "deterministic simulation: seeded token scheduler + fault injection over real mmtk-core with a SimVM binding, "
               "shadow-heap reference model and history oracles",
}


def main():
    hooks = subprocess.check_output(
        ["git", "-C", "/repo", "log", "--format=%H %s", "--reverse"], text=True).strip().split("\n")
    hook_commits = [l.split()[0] for l in hooks if " verif-hooks:" in l]
    checks = []
    for pid in sorted(check.PROPS):
        cfg = check.PROPS[pid]
        checks.append({
            "property_id": pid,
            "quick_cmd": "python3 check.py %s --tier quick" % pid,
            "thorough_cmd": "python3 check.py %s --tier thorough" % pid,
            "evidence_file": "evidence/%s.json" % pid,
            "replay_cmd_template": "python3 check.py %s --replay {path}" % pid,
            "engine": cfg["engine"],
            "level_claimed": {
                "category": "exploration",
                "text": cfg.get("level_text", LEVEL_TEXT["default"]),
                "design_ref": "DESIGN.md sections 4 (%s, plan) and 10.7 (as built)" % pid,
            },
            "level_note": NOTE_COMP if cfg["engine"] == "compsim" else cfg.get("level_note", NOTE),
            "technique": TECH_COMP if cfg["engine"] == "compsim" else cfg.get("technique", TECH["default"]),
        })
    na = []
    for pid in ALL:
        if pid in check.PROPS:
            continue
        if pid in PURE:
            na.append({"property_id": pid, "reason": PURE[pid]})
        else:
            na.append({"property_id": pid, "reason": check.UNCLAIMED.get(pid, "no check built")})
    m = {
        "version": 1,
        "setup_cmd": "python3 check.py setup",
        "hooks": {
            "guard": "mmtk_verif",
            "enable": "RUSTFLAGS=--cfg mmtk_verif (set by /verif/sim/.cargo/config.toml for every build of the simulator; "
                      "mmtk-core is a path dependency on /repo)",
            "baseline_off_cmd": "cd /repo && cargo test --workspace --no-fail-fast --offline",
            "source_commits": hook_commits,
            "add_only": False,
        },
        "engines": [
            {"name": "syssim", "path": "sim/src/bin/syssim.rs",
             "serves_properties": sorted(p for p in check.PROPS if check.PROPS[p]["engine"] == "syssim"),
             "kind_free_text": "whole-system deterministic simulator: real MMTK<SimVM> (all plans), token scheduler, "
                               "seeded workload/config/schedule/fault generation, shadow heap + history oracles, "
                               "ddmin minimiser, replay files"},
        ] + ([
            {"name": "compsim", "path": "sim/src/comp.rs (run by sim/src/bin/syssim.rs when the spec's plan is \"comp\")",
             "serves_properties": sorted(p for p in check.PROPS if check.PROPS[p]["engine"] == "compsim"),
             "kind_free_text": "component-level deterministic simulator: the real mmtk-core component (block pool, side/"
                               "header metadata, mmapper, ...) driven by simulated threads under the same token scheduler, "
                               "checked against a small sequential reference model"},
        ] if any(check.PROPS[p]["engine"] == "compsim" for p in check.PROPS) else []),
        "checks": checks,
        "notes": "Every check is `python3 check.py <ID> --tier quick|thorough` (honours VERIF_SEED, VERIF_TIER, VERIF_JOBS). "
                 "Known findings: known_findings.jsonl. Replays: replays/. See DESIGN.md.",
        "not_applicable": na,
    }
    with open(os.path.join(VERIF, "MANIFEST.json"), "w") as f:
        json.dump(m, f, indent=1)
    print("claimed %d, not applicable %d, hook commits %d" % (len(checks), len(na), len(hook_commits)))


if __name__ == "__main__":
    main()
