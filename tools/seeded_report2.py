#!/usr/bin/env python3
"""Round 2 of the seeded changes: first outcome (machinery as it was when the change arrived) and
outcome after the follow-up work, into seeded/<id>/result.json and seeded/RESULTS2.md."""
import glob, json, os, re
def parse(path, prop):
    if not os.path.exists(path):
        return None
    js = [l for l in open(path).read().split("\n") if l.startswith("{")]
    if not js:
        return None
    r = json.loads(js[-1]).get(prop, {})
    tail = "\n".join(r.get("tail", []))
    m = re.search(r"violation class=([^:]+(?::[^:]+\.rs:\d+)?)", tail)
    return {"rc": r.get("rc"), "class": m.group(1) if m else ""}
rows = []
for f in sorted(glob.glob("/tmp/mut/G*/r2_*.txt")):
    mid = os.path.basename(f)[3:-4]
    prop = mid.split("_")[0]
    last = parse(f, prop)
    first = parse("/tmp/mut/r2_first/" + os.path.basename(f), prop) or last
    if last is None:
        continue
    meta = {}
    try:
        meta = json.load(open("/verif/seeded/%s/meta.json" % mid))
    except Exception:
        pass
    res = {"id": mid, "property": prop, "first_run_caught": first["rc"] == 1, "caught": last["rc"] == 1, "class": last["class"]}
    os.makedirs("/verif/seeded/%s" % mid, exist_ok=True)
    json.dump(res, open("/verif/seeded/%s/result.json" % mid, "w"), indent=1)
    rows.append((mid, first["rc"] == 1, last["rc"] == 1, last["class"], (meta.get("summary") or "")[:150]))
with open("/verif/seeded/RESULTS2.md", "w") as o:
    o.write("# Seeded changes, round 2 (sub-agents were told what round 1 contained and asked for subtler changes)\n\n")
    o.write("| change | caught when it arrived | caught after follow-up | violation class | what was changed |\n|---|---|---|---|---|\n")
    for mid, f, l, cls, summ in rows:
        o.write("| %s | %s | %s | %s | %s |\n" % (mid, "yes" if f else "no", "yes" if l else "NO", cls.replace("|", "/"), summ.replace("|", "/")))
    o.write("\n%d changes; %d caught on arrival, %d after follow-up.\n" % (len(rows), sum(1 for r in rows if r[1]), sum(1 for r in rows if r[2])))
print(len(rows), sum(1 for r in rows if r[1]), sum(1 for r in rows if r[2]))
