#!/bin/bash
# mutgroup.sh <group dir> [tag]: run every seeded change of the group against the quick check of its property
g=$1
tag=${2:-res}
for d in $g/out/*/; do
  id=$(basename $d)
  prop=${id%%_*}
  if [ -f $g/${tag}_$id.txt ] && grep -q '^{' $g/${tag}_$id.txt; then continue; fi
  python3 /verif/tools/mutant.py $g/wt $d/patch.diff $prop > $g/${tag}_$id.txt 2>&1
done
echo done > $g/ALLDONE_$tag
