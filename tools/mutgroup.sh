#!/bin/bash
# mutgroup.sh <group dir>: run every seeded change of the group against the quick check of its property
g=$1
for d in $g/out/*/; do
  id=$(basename $d)
  prop=${id%%_*}
  if [ -f $g/res_$id.txt ] && grep -q '^{' $g/res_$id.txt; then continue; fi
  python3 /verif/tools/mutant.py $g/wt $d/patch.diff $prop > $g/res_$id.txt 2>&1
done
echo done > $g/ALLDONE
