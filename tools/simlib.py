"""Shared helpers: building the simulator variants, running specs, minimising failures."""
import concurrent.futures as cf
import copy
import hashlib
import json
import os
import subprocess
import sys
import tempfile
import time

VERIF = os.path.dirname(os.path.dirname(os.path.abspath(__file__)))
SIM = os.path.join(VERIF, "sim")
TARGET = os.path.join(VERIF, "target")
REPO = os.environ.get("VERIF_REPO", "/repo")
VARIANTS = {"A": "var_a", "B": "var_b", "C": "var_c"}
RUN_TIMEOUT = 240


def env():
    e = dict(os.environ)
    e["CARGO_NET_OFFLINE"] = "true"
    return e


def target_dir(variant):
    suffix = "" if REPO == "/repo" else "_" + hashlib.md5(REPO.encode()).hexdigest()[:8]
    return os.path.join(TARGET, variant + suffix)


def binary(variant, name="syssim"):
    return os.path.join(target_dir(variant), "debug", name)


def build(variant, quiet=True):
    """(Re)build one variant from /repo's current working tree. cargo decides what is stale."""
    cmd = ["cargo", "build", "--offline", "--features", VARIANTS[variant],
           "--target-dir", target_dir(variant)]
    cwd = SIM
    if REPO != "/repo":
        # (used for sensitivity experiments on scratch copies of mmtk-core) build from a shadow
        # crate directory whose manifest points at the other source tree
        cwd = os.path.join(target_dir(variant), "shadow")
        os.makedirs(os.path.join(cwd, ".cargo"), exist_ok=True)
        with open(os.path.join(cwd, "Cargo.toml"), "w") as f:
            f.write(open(os.path.join(SIM, "Cargo.toml")).read().replace('path = "/repo"', 'path = "%s"' % REPO))
        for name in ("Cargo.lock", os.path.join(".cargo", "config.toml")):
            with open(os.path.join(cwd, name), "w") as f:
                f.write(open(os.path.join(SIM, name)).read())
        if not os.path.islink(os.path.join(cwd, "src")):
            os.symlink(os.path.join(SIM, "src"), os.path.join(cwd, "src"))
    t0 = time.time()
    p = subprocess.run(cmd, cwd=cwd, env=env(), stdout=subprocess.PIPE, stderr=subprocess.STDOUT, text=True)
    if p.returncode != 0:
        sys.stderr.write(p.stdout[-6000:])
        raise SystemExit(2)
    if not quiet:
        print("built variant %s in %.1fs" % (variant, time.time() - t0))
    return binary(variant)


def parse_outcome(stdout, rc, timed_out=False):
    if timed_out:
        return {"status": "harness-error", "class": "timeout", "message": "wall-clock watchdog", "property": ""}
    line = stdout.strip().split("\n")[-1] if stdout.strip() else ""
    if rc is not None and rc < 0 and not line.startswith("{"):
        # killed by a signal before reporting: memory corruption / abort inside the system under test
        import signal as _sig
        try:
            name = _sig.Signals(-rc).name
        except Exception:
            name = "SIG%d" % -rc
        if name in ("SIGSEGV", "SIGBUS", "SIGABRT", "SIGILL", "SIGFPE"):
            return {"status": "violation", "class": "crash-" + name, "native_property": "",
                    "message": "the simulated process died with " + name, "property": "", "rc": rc}
    try:
        o = json.loads(line)
        o["rc"] = rc
        return o
    except Exception:
        return {"status": "harness-error", "class": "no-output", "message": "rc=%s out=%r" % (rc, stdout[-300:]), "property": "", "rc": rc}


def run_seed(variant, seed, focus, tier, binname="syssim"):
    cmd = [binary(variant, binname), "--seed", str(seed), "--focus", focus, "--tier", tier]
    try:
        p = subprocess.run(cmd, stdout=subprocess.PIPE, stderr=subprocess.PIPE, text=True, timeout=RUN_TIMEOUT)
    except subprocess.TimeoutExpired:
        return parse_outcome("", -1, True)
    return parse_outcome(p.stdout, p.returncode)


def dump_spec(variant, seed, focus, tier):
    cmd = [binary(variant), "--seed", str(seed), "--focus", focus, "--tier", tier, "--dump-spec"]
    p = subprocess.run(cmd, stdout=subprocess.PIPE, stderr=subprocess.PIPE, text=True, timeout=RUN_TIMEOUT)
    return json.loads(p.stdout)


def run_spec(spec, binname="syssim"):
    variant = spec["variant"]
    with tempfile.NamedTemporaryFile("w", suffix=".json", delete=False, dir="/dev/shm") as f:
        json.dump(spec, f)
        path = f.name
    try:
        cmd = [binary(variant, binname), "--spec", path]
        try:
            p = subprocess.run(cmd, stdout=subprocess.PIPE, stderr=subprocess.PIPE, text=True, timeout=RUN_TIMEOUT)
        except subprocess.TimeoutExpired:
            return parse_outcome("", -1, True)
        return parse_outcome(p.stdout, p.returncode)
    finally:
        os.unlink(path)


def sig(o):
    return (o.get("status"), o.get("class"))


def same_failure(o, want):
    return o.get("status") == "violation" and o.get("class") == want


def _try_many(cands, want, workers):
    """Evaluate candidate specs in parallel; return the first (by order) that still fails."""
    if not cands:
        return None
    with cf.ThreadPoolExecutor(max_workers=workers) as ex:
        res = list(ex.map(run_spec, cands))
    for c, o in zip(cands, res):
        if same_failure(o, want):
            return c, o
    return None


MIN_DEADLINE = [None]


def expired():
    return MIN_DEADLINE[0] is not None and time.time() > MIN_DEADLINE[0]


def ddmin_list(spec, get, put, want, workers, budget):
    """Classic ddmin over a list inside the spec. Returns (spec, runs_used)."""
    items = get(spec)
    n = 2
    used = 0
    while len(items) >= 1 and used < budget and not expired():
        chunk = max(1, len(items) // n)
        cands = []
        for i in range(0, len(items), chunk):
            rest = items[:i] + items[i + chunk:]
            c = copy.deepcopy(spec)
            put(c, rest)
            cands.append(c)
        used += len(cands)
        hit = _try_many(cands, want, workers)
        if hit:
            spec = hit[0]
            items = get(spec)
            n = max(n - 1, 2)
            if len(items) == 0:
                break
        else:
            if chunk == 1:
                break
            n = min(len(items), n * 2)
    return spec, used


def minimise(spec, want_class, workers=16, budget=1500, log=None):
    """Shrink a failing spec while the same violation class persists."""
    def say(m):
        if log:
            log(m)
    used = 0
    spec = copy.deepcopy(spec)
    # wall-clock budget: what has been shrunk by then is what gets reported
    MIN_DEADLINE[0] = time.time() + float(os.environ.get("VERIF_MINIMISE_SECS", "420"))
    # 0. confirm
    o = run_spec(spec)
    if not same_failure(o, want_class):
        return spec, o, False
    # 1. drop whole mutator programs (keep the thread so partitioning stays stable, then try removing)
    for i in reversed(range(len(spec["programs"]))):
        if len(spec["programs"]) > 1 and not expired():
            c = copy.deepcopy(spec)
            del c["programs"][i]
            used += 1
            if same_failure(run_spec(c), want_class):
                spec = c
                say("dropped mutator %d" % i)
    # 2. ddmin each program
    for i in range(len(spec["programs"])):
        def get(s, i=i):
            return s["programs"][i]
        def put(s, v, i=i):
            s["programs"][i] = v
        before = len(spec["programs"][i])
        spec, u = ddmin_list(spec, get, put, want_class, workers, budget - used)
        used += u
        say("program %d: %d -> %d ops" % (i, before, len(spec["programs"][i])))
    # 3. simplify configuration knobs one at a time
    simpl = [
        ("sched.spurious_ppm", 0), ("sched.stall_ppm", 0), ("sched.mmap_fault_ppm", 0),
        ("cfg.stress_factor", None), ("cfg.pinning_roots_pct", 0), ("cfg.tpinning_roots_pct", 0),
        ("cfg.count_live_bytes", False), ("cfg.immix_always_defrag", False),
        ("cfg.immix_defrag_every_block", False), ("cfg.defrag_headroom_percent", None),
        ("cfg.full_heap_system_gc", False), ("cfg.layout32", False), ("cfg.nursery", None),
        ("cfg.root_batch", 64), ("cfg.workers", 1), ("cfg.workers", 2), ("cfg.write_mode", 1),
        ("sched.strategy", {"kind": "Sequential"}), ("sched.clock_mode", 0), ("cfg.final_gcs", 0),
    ]
    for path, val in simpl:
        a, b = path.split(".")
        if spec[a].get(b) == val or expired():
            continue
        c = copy.deepcopy(spec)
        c[a][b] = val
        used += 1
        if same_failure(run_spec(c), want_class):
            spec = c
            say("simplified %s = %r" % (path, val))
    # 4. shrink sizes
    for i, prog in enumerate(spec["programs"]):
        for j, op in enumerate(prog):
            if op.get("op") in ("Alloc", "AllocOpt") and op["size"] > 64 and not expired():
                for new in (32, 64, 256, op["size"] // 2):
                    if new >= op["size"]:
                        continue
                    c = copy.deepcopy(spec)
                    c["programs"][i][j]["size"] = new
                    used += 1
                    if same_failure(run_spec(c), want_class):
                        spec = c
                        break
    # 5. make the schedule explicit and drop preemptions / faults
    o = run_spec(spec)
    if same_failure(o, want_class) and o.get("recorded") is not None and spec["sched"].get("explicit") is None:
        c = copy.deepcopy(spec)
        c["sched"]["explicit"] = o["recorded"]
        used += 1
        o2 = run_spec(c)
        if same_failure(o2, want_class):
            spec = c
            say("explicit schedule: %d preemptions, %d faults" % (len(o["recorded"]["decisions"]), len(o["recorded"]["faults"])))
            spec, u = ddmin_list(spec, lambda s: s["sched"]["explicit"]["decisions"],
                                 lambda s, v: s["sched"]["explicit"].__setitem__("decisions", v),
                                 want_class, workers, max(50, budget - used))
            used += u
            spec, u = ddmin_list(spec, lambda s: s["sched"]["explicit"]["faults"],
                                 lambda s, v: s["sched"]["explicit"].__setitem__("faults", v),
                                 want_class, workers, max(20, budget - used))
            used += u
            say("after schedule minimisation: %d preemptions, %d faults" % (
                len(spec["sched"]["explicit"]["decisions"]), len(spec["sched"]["explicit"]["faults"])))
    final = run_spec(spec)
    return spec, final, same_failure(final, want_class)
