#!/usr/bin/env python3
"""agg.py <prop> <n>: run a batch, print outcome classes (one example each) and selected counters."""
import sys,os
sys.path.insert(0,'/verif/tools'); sys.path.insert(0,'/verif')
import check
prop,n=sys.argv[1],sys.argv[2]
pat=sys.argv[3] if len(sys.argv)>3 else 'pauses|satb'
os.environ["VERIF_RUNS"]=n
res,wall=check.run_batch(prop,"quick",int(os.environ.get("VERIF_SEED","1")))
known=check.load_known()
import re
agg={}; st={}; ex={}
for o in res:
    k=check.known_match(o,known,prop) if o.get('status')=='violation' else None
    key=(o.get('status'),o.get('class'),k['id'] if k else None)
    st[key]=st.get(key,0)+1
    if key not in ex: ex[key]=(o['_variant'],o['_seed'],o.get('plan'),(o.get('message') or '')[:260])
    for c,v in o.get('counters',{}).items(): agg[c]=agg.get(c,0)+v
print(round(wall,1))
for k,v in sorted(st.items(),key=lambda x:-x[1]): print(v,k,ex[k] if k[0]!='ok' else '')
print({c:v for c,v in sorted(agg.items()) if re.search(pat,c)})
