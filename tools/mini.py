#!/usr/bin/env python3
"""Minimise a failing seed or spec: mini.py <variant> <seed> <focus> [tier]  |  mini.py --spec file"""
import json, sys, os
sys.path.insert(0, os.path.dirname(os.path.abspath(__file__)))
import simlib
if sys.argv[1] == "--spec":
    spec = json.load(open(sys.argv[2]))
    if "spec" in spec: spec = spec["spec"]
else:
    v, seed, focus = sys.argv[1], int(sys.argv[2]), sys.argv[3]
    tier = sys.argv[4] if len(sys.argv) > 4 else "quick"
    spec = simlib.dump_spec(v, seed, focus, tier)
o = simlib.run_spec(spec)
print("initial:", o["status"], o.get("class"), o.get("message", "")[:300])
if o["status"] != "violation":
    sys.exit(0)
ms, fo, ok = simlib.minimise(spec, o["class"], log=print)
print("final:", ok, fo["status"], fo.get("class"), fo.get("message", "")[:500])
out = "/tmp/min_%s.json" % (spec.get("seed"))
json.dump({"spec": ms, "class": fo.get("class"), "message": fo.get("message")}, open(out, "w"), indent=1)
print("written", out)
for i, p in enumerate(ms["programs"]):
    print("mutator", i)
    for op in p: print("   ", json.dumps(op))
print(json.dumps(ms["cfg"])); print(json.dumps(ms["sched"]))
