#!/usr/bin/env python3
"""mutant.py <worktree> <patch.diff> <PROP>[,<PROP>...] [runs]: apply a seeded change to a scratch
worktree of mmtk-core, run the quick checks of the given properties against that tree
(VERIF_REPO), print the outcome, revert the worktree.  Nothing under /repo is touched."""
import json, os, subprocess, sys, time
wt, patch, props = sys.argv[1], sys.argv[2], sys.argv[3].split(",")
runs = sys.argv[4] if len(sys.argv) > 4 else None
subprocess.check_call(["git", "-C", wt, "checkout", "--", "."])
subprocess.check_call(["git", "-C", wt, "checkout", "-q", "--detach", "main"])
r = subprocess.run(["git", "-C", wt, "apply", patch])
if r.returncode != 0:
    print("PATCH DOES NOT APPLY")
    sys.exit(3)
env = dict(os.environ, VERIF_REPO=wt, VERIF_NO_EVIDENCE="1")
if runs:
    env["VERIF_RUNS"] = runs
out = {}
try:
    for p in props:
        t0 = time.time()
        r = subprocess.run([sys.executable, "/verif/check.py", p, "--tier", "quick"], env=env, cwd="/verif",
                           stdout=subprocess.PIPE, stderr=subprocess.STDOUT, text=True)
        lines = [l for l in r.stdout.split("\n") if l and not l.startswith("KNOWN-FINDING")]
        out[p] = {"rc": r.returncode, "secs": round(time.time() - t0), "tail": lines[-6:]}
        print(p, "rc=%d" % r.returncode, "%ds" % (time.time() - t0))
        for l in lines[-6:]:
            print("   ", l[:500])
finally:
    subprocess.check_call(["git", "-C", wt, "checkout", "--", "."])
print(json.dumps(out))
