#!/usr/bin/env python3
"""Collect the outcomes of the seeded-change runs (tools/mutgroup.sh <group> final) into
/verif/seeded/<id>/result.json and /verif/seeded/RESULTS.md."""
import glob, json, os, re
rows = []
for f in sorted(glob.glob("/tmp/mut/G*/final_*.txt")):
    mid = os.path.basename(f)[len("final_"):-4]
    txt = open(f).read()
    js = [l for l in txt.split("\n") if l.startswith("{")]
    if not js:
        continue
    out = json.loads(js[-1])
    prop = mid.split("_")[0]
    r = out.get(prop, {})
    tail = "\n".join(r.get("tail", []))
    m = re.search(r"violation class=([^:]+(?::[^:]+\.rs:\d+)?):? (.*)", tail)
    cls = m.group(1) if m else ""
    msg = m.group(2)[:200] if m else ""
    caught = r.get("rc") == 1
    meta = {}
    try:
        meta = json.load(open("/verif/seeded/%s/meta.json" % mid))
    except Exception:
        pass
    res = {"id": mid, "property": prop, "check_exit": r.get("rc"), "caught": caught, "class": cls, "message": msg,
           "summary_line": (r.get("tail") or [""])[-1][:300]}
    os.makedirs("/verif/seeded/%s" % mid, exist_ok=True)
    json.dump(res, open("/verif/seeded/%s/result.json" % mid, "w"), indent=1)
    rows.append((mid, caught, cls, (meta.get("summary") or "")[:150]))
with open("/verif/seeded/RESULTS.md", "w") as o:
    o.write("# Seeded changes: outcome of `python3 check.py <ID> --tier quick` on the changed tree\n\n")
    o.write("Each change was produced by a sub-agent that saw only the property text and a scratch worktree.\n")
    o.write("Apply with `git -C /repo apply /verif/seeded/<id>/patch.diff`, undo with `git -C /repo checkout -- .`.\n\n")
    o.write("| change | caught by its property's quick check | violation class | what was changed |\n|---|---|---|---|\n")
    for mid, caught, cls, summ in rows:
        o.write("| %s | %s | %s | %s |\n" % (mid, "yes" if caught else "NO", cls.replace("|", "/"), summ.replace("|", "/")))
    n = len(rows); c = sum(1 for r in rows if r[1])
    o.write("\n%d of %d caught.\n" % (c, n))
print("%d rows" % len(rows))
