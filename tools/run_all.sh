#!/bin/bash
# run_all.sh [tier]: run every claimed check in sequence, print one summary line per check
tier=${1:-quick}
cd /verif
for p in $(python3 -c "
import sys; sys.path.insert(0,'/verif'); sys.path.insert(0,'/verif/tools')
import check; print(' '.join(sorted(check.PROPS)))"); do
  out=$(python3 check.py $p --tier $tier 2>&1); rc=$?
  echo "$p rc=$rc $(echo "$out" | grep -E "^$p $tier:" | tail -1)"
  echo "$out" | grep -E "^VIOLATION|^violation class|^harness error|^note:" | cut -c1-300
done
