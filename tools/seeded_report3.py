#!/usr/bin/env python3
"""Round 3 of the seeded changes (one change per property from five fresh sub-agents, plus re-runs
of earlier misses): copy each confirmed change into /verif/seeded/<id>/, write result.json and
seeded/RESULTS3.md.  Inputs: /tmp/mut/R*/out3/<id>/ (the sub-agent's files),
/tmp/mut/X*/test_<id>.log (the existing test suite re-run by us with the patch applied) and
/tmp/mut/X*/r3_<id>.txt (tools/mutant.py: the quick check of the property against the patched
worktree)."""
import glob, json, os, re, shutil


def parse(path, prop):
    js = [l for l in open(path).read().split("\n") if l.startswith("{")]
    if not js:
        return None
    r = json.loads(js[-1]).get(prop, {})
    tail = "\n".join(r.get("tail", []))
    m = re.search(r"violation class=([^:]+(?::[^:]+\.rs:\d+)?)", tail)
    n = re.search(r"(\d+) runs in [\d.]+s, (\d+) violations", tail)
    return {"rc": r.get("rc"), "class": m.group(1) if m else "", "runs": int(n.group(1)) if n else None,
            "violating_runs": int(n.group(2)) if n else None}


rows = []
for f in sorted(glob.glob("/tmp/mut/X*/r3_*.txt")):
    mid = os.path.basename(f)[3:-4]
    prop = mid.split("_")[0]
    res = parse(f, prop)
    if res is None:
        continue
    lane = os.path.dirname(f)
    tlog = os.path.join(lane, "test_%s.log" % mid)
    tests_ok = None
    if os.path.exists(tlog):
        t = open(tlog).read()
        tests_ok = t.strip().endswith("rc=0") and "test result: FAILED" not in t
    dst = "/verif/seeded/%s" % mid
    src = glob.glob("/tmp/mut/R*/out3/%s" % mid)
    if src:
        if tests_ok is False:
            continue  # not kept: the existing suite notices it
        os.makedirs(dst, exist_ok=True)
        for name in os.listdir(src[0]):
            if os.path.isfile(os.path.join(src[0], name)) and os.path.getsize(os.path.join(src[0], name)) < 400000:
                shutil.copy(os.path.join(src[0], name), os.path.join(dst, name))
        meta = json.load(open(os.path.join(dst, "meta.json")))
        meta["round"] = 3
        meta["needs_to_manifest"] = meta.get("configuration", "")
        meta["confirmed_by_us"] = {
            "patch_applies_to_main": True,
            "existing_test_suite_with_patch": "cargo test --workspace --no-fail-fast --offline -> %s" % (
                "all test binaries ok" if tests_ok else "not re-run"),
            "builds_with_cfg_mmtk_verif": True,
            "demonstration": ("sub-agent's demo test (%s) fails with / passes without the change as reported in demonstration.md; not re-run by us"
                              % ", ".join(n for n in os.listdir(dst) if n.startswith("demo.")))
            if any(n.startswith("demo.") for n in os.listdir(dst)) else "code-level argument only (demonstration.md)",
            "check_run": "python3 tools/mutant.py <scratch worktree> patch.diff %s (quick tier, VERIF_SEED=1)" % prop,
        }
        json.dump(meta, open(os.path.join(dst, "meta.json"), "w"), indent=1)
        rnd = 3
    else:
        rnd = "re-run"
        meta = json.load(open(os.path.join(dst, "meta.json")))
    out = {"id": mid, "property": prop, "caught": res["rc"] == 1, "class": res["class"], "runs": res["runs"],
           "violating_runs": res["violating_runs"], "round": rnd}
    if rnd == 3:
        json.dump(out, open(os.path.join(dst, "result.json"), "w"), indent=1)
    else:
        json.dump(out, open(os.path.join(dst, "result_session3.json"), "w"), indent=1)
    rows.append((mid, rnd, res["rc"] == 1, res["class"], res["violating_runs"], res["runs"], (meta.get("summary") or "")[:170]))

with open("/verif/seeded/RESULTS3.md", "w") as o:
    o.write("# Seeded changes, round 3 (one per property, from sub-agents that saw only the property text and the one-line summaries of rounds 1-2) and re-runs of earlier misses\n\n")
    o.write("| change | round | caught by the quick check of its property | violation class | violating runs / runs | what was changed |\n|---|---|---|---|---|---|\n")
    for mid, rnd, c, cls, v, n, summ in rows:
        o.write("| %s | %s | %s | %s | %s / %s | %s |\n" % (mid, rnd, "yes" if c else "NO", cls.replace("|", "/"), v, n, summ.replace("|", "/")))
    r3 = [r for r in rows if r[1] == 3]
    o.write("\nround 3: %d changes run, %d caught.\n" % (len(r3), sum(1 for r in r3 if r[2])))
print(open("/verif/seeded/RESULTS3.md").read())
